"""Reference parser for property C02: the operator table decides the parse tree.

Imports nothing from yaql.  The only inputs are

* an operator table in the documented list-of-groups form
  (doc/source/extending_yaql.rst, "Customizing operators": "Operators are
  grouped by their precedence.  Operators with a higher precedence come first
  ...  Operators within the same group have the same precedence"), i.e. a list
  of groups, tightest first, each a list of (symbol, type) with type one of the
  five OperatorType names, and
* a token list (the checker's own description of the expression).

parse() is a precedence climber: while the right operand of an operator S is
being parsed, a following operator L is absorbed into that operand iff L's
group is earlier (tighter) than S's, or it is the same group and the group is
right-associative.  A prefix operator is an operator of its group with no left
operand; a suffix operator applies as soon as its group binds at least as
tight as the operator on its left; '[' after a value is the postfix of the
'[]' group; parentheses and argument lists start afresh.

insert() is the model of YaqlFactory.insert_operator on the list of groups
("insert an operator before or after some other existing operator to get the
desired precedence"): without a new group the operator joins the anchor's
group, with a new group it gets a group of its own immediately looser than the
anchor's; anchor None means the very front of the table.
"""

PREFIX = 'PREFIX_UNARY'
SUFFIX = 'SUFFIX_UNARY'
LEFT = 'BINARY_LEFT_ASSOCIATIVE'
RIGHT = 'BINARY_RIGHT_ASSOCIATIVE'
PAIR = 'NAME_VALUE_PAIR'
BINARY = (LEFT, RIGHT)
UNARY = (PREFIX, SUFFIX)


class Syntax(Exception):
    """The token list is not an expression under the table."""


# --------------------------------------------------------------------------
# the table
# --------------------------------------------------------------------------
def groups_of(records):
    """factory.operators layout (records separated by empty tuples) ->
    list of groups of (symbol, type)."""
    groups = [[]]
    for r in records:
        if not r:
            groups.append([])
        else:
            groups[-1].append((r[0], r[1]))
    return groups


def insert(groups, existing, existing_binary, new, typ, create_group):
    """Model of insert_operator; returns the new list of groups or raises
    ValueError when the anchor (symbol + arity) is not in the table."""
    groups = [list(g) for g in groups]
    if existing is None:
        if create_group:
            groups.insert(0, [(new, typ)])
        else:
            groups[0].insert(0, (new, typ))
        return groups
    wanted = BINARY if existing_binary else UNARY
    for gi, g in enumerate(groups):
        if any(s == existing and t in wanted for s, t in g):
            if create_group:
                groups.insert(gi + 1, [(new, typ)])
            else:
                g.append((new, typ))
            return groups
    raise ValueError(existing)


def dense(groups):
    """The groups that hold operators.  Two adjacent separators in the table
    make an empty group; it holds nothing, so it dictates nothing: the order of
    the remaining groups is the precedence order."""
    return [g for g in groups if g]


def well_formed(groups):
    """A symbol has at most one unary and one binary role and there is at most
    one name/value symbol.  (A symbol that is both suffix and binary would make
    'a ! b' ambiguous by construction; such tables are not part of the space.)"""
    unary, binary, pairs = {}, set(), 0
    for g in groups:
        for s, t in g:
            if t == PAIR:
                pairs += 1
            elif t in UNARY:
                if s in unary:
                    return False
                unary[s] = t
            elif t in BINARY:
                if s in binary:
                    return False
                binary.add(s)
            else:
                return False
    if any(t == SUFFIX and s in binary for s, t in unary.items()):
        return False
    return pairs <= 1


def homogeneous(groups):
    """Property C02: every group is 'binary of one associativity with optional
    prefix operators, or only suffix operators'."""
    for g in groups:
        kinds = {t for s, t in g if t != PAIR}
        if SUFFIX in kinds and kinds != {SUFFIX}:
            return False
        if LEFT in kinds and RIGHT in kinds:
            return False
    return True


class Table(object):
    def __init__(self, groups):
        self.prefix = {}
        self.suffix = {}
        self.binary = {}
        self.assoc = {}          # level -> 'l' | 'r'
        self.pair = None
        for level, g in enumerate(dense(groups), 1):
            for s, t in g:
                if t == PAIR:
                    self.pair = s
                elif t == PREFIX:
                    self.prefix[s] = level
                elif t == SUFFIX:
                    self.suffix[s] = level
                    self.assoc[level] = 'r'
                elif t == LEFT:
                    self.binary[s] = level
                    self.assoc[level] = 'l'
                elif t == RIGHT:
                    self.binary[s] = level
                    self.assoc[level] = 'r'

    def symbols(self):
        out = set(self.prefix) | set(self.suffix) | set(self.binary)
        if self.pair:
            out.add(self.pair)
        return out - {'[]', '{}'}


# --------------------------------------------------------------------------
# the parser
# --------------------------------------------------------------------------
# tokens:  ('opd', text, leaf_tree)  ('op', symbol)  ('func', name)  ('(',) (')',)
#          ('[',) (']',) ('{',) ('}',) (',',)
# trees:   leaf_tree | (symbol, left, right) | ('u', symbol, operand) | ('index', value, *args)
#          | ('call', name, *args) | ('list', *args) | ('map', *args) | ('pair', name, value)
class _Parser(object):
    def __init__(self, tokens, table):
        self.toks = tokens
        self.i = 0
        self.t = table

    def peek(self):
        return self.toks[self.i] if self.i < len(self.toks) else None

    def take(self, kind=None):
        tok = self.peek()
        if tok is None or (kind is not None and tok[0] != kind):
            raise Syntax((kind, tok))
        self.i += 1
        return tok

    def absorbs(self, open_level, level):
        """May an operator of `level` extend the operand being parsed to the
        right of an operator of `open_level`?"""
        if open_level is None:
            return True
        if level != open_level:
            return level < open_level
        return self.t.assoc.get(level, 'l') == 'r'

    def args(self, closer):
        out = []
        if self.peek() is not None and self.peek()[0] == closer:
            self.take()
            return out
        while True:
            item = self.expr(None)
            tok = self.peek()
            if tok is not None and tok[0] == 'op' and tok[1] == self.t.pair:
                self.take()
                item = ('pair', item, self.expr(None))
            out.append(item)
            tok = self.take()
            if tok[0] == closer:
                return out
            if tok[0] != ',':
                raise Syntax(tok)

    def expr(self, open_level):
        tok = self.take()
        kind = tok[0]
        if kind == 'opd':
            left = tok[2]
        elif kind == '(':
            left = self.expr(None)
            self.take(')')
        elif kind == 'func':
            left = ('call', tok[1]) + tuple(self.args(')'))
        elif kind == '[' and '[]' in self.t.binary:
            left = ('list',) + tuple(self.args(']'))
        elif kind == '{' and '{}' in self.t.binary:
            left = ('map',) + tuple(self.args('}'))
        elif kind == 'op' and tok[1] in self.t.prefix:
            left = ('u', tok[1], self.expr(self.t.prefix[tok[1]]))
        else:
            raise Syntax(tok)
        while True:
            tok = self.peek()
            if tok is None or tok[0] in (')', ']', '}', ','):
                return left
            if tok[0] == '[' and '[]' in self.t.binary:
                if not self.absorbs(open_level, self.t.binary['[]']):
                    return left
                self.take()
                left = ('index', left) + tuple(self.args(']'))
                continue
            if tok[0] != 'op':
                raise Syntax(tok)
            sym = tok[1]
            if sym == self.t.pair:
                return left
            if sym in self.t.suffix:
                if not self.absorbs(open_level, self.t.suffix[sym]):
                    return left
                self.take()
                left = ('u', sym, left)
                continue
            level = self.t.binary.get(sym)
            if level is None:
                raise Syntax(tok)
            if not self.absorbs(open_level, level):
                return left
            self.take()
            left = (sym, left, self.expr(level))


def parse(tokens, groups):
    """Expected tree of the token list under the table, or raises Syntax."""
    p = _Parser(list(tokens), Table(groups))
    tree = p.expr(None)
    if p.peek() is not None:
        raise Syntax(p.peek())
    return tree


# --------------------------------------------------------------------------
# rendering a token list as text
# --------------------------------------------------------------------------
def lexeme(tok):
    k = tok[0]
    if k in ('opd', 'op'):
        return tok[1]
    if k == 'func':
        return tok[1] + '('
    return k


def _word(c):
    return c.isalnum() or c == '_'


def needs_space(a, b, symbols):
    """Would the lexemes a, b fuse (or re-split) when written without a
    separator?  Conservative: may ask for a space that is not needed.
    Language reference: keywords/numbers are runs of alphanumerics, a function
    call is a keyword immediately followed by '(', a number may contain one dot
    between digits, operator symbols are matched longest-first."""
    x, y = a[-1], b[0]
    if (_word(x) or x == '$') and (_word(y) or y == '('):
        return True
    if (x.isdigit() and y == '.') or (x == '.' and y.isdigit()):
        return True
    for s in symbols:
        for k in range(1, len(s)):
            if a.endswith(s[:k]) and b.startswith(s[k:]):
                return True
    return False


def render(tokens, sep, symbols):
    """sep: ' ' everywhere | '' = minimal | any whitespace string."""
    lex = [lexeme(t) for t in tokens]
    out = [lex[0]]
    for prev, cur in zip(lex, lex[1:]):
        if sep == '':
            out.append(' ' if needs_space(prev, cur, symbols) else '')
        else:
            out.append(sep)
        out.append(cur)
    return ''.join(out)
