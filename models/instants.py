"""Reference model of yaql's date/time values (property C20).

A datetime is a pair (instant, offset): `instant` = integer microseconds since
1970-01-01T00:00:00 UTC, `offset` = minutes east of UTC.  A timespan is an
integer number of microseconds.  Everything is integer arithmetic on the
proleptic Gregorian calendar; nothing is imported from yaql and nothing is
delegated to the `datetime` module (the implementation is a thin wrapper
around it).

Docstrings used: datetime(year..microsecond, offset) "offset: datetime offset
... needed for tzinfo", `offset` "Returns offset of local time from UTC", `utc`
"Returns datetime converted to UTC" (16:30 at +3 h -> hour 13), `timestamp`
"total seconds from datetime(1970, 1, 1) to datetime UTC", timespan unit
properties "total <unit> in timespan".
"""
import math
from fractions import Fraction

US = 10 ** 6
MIN_US = 60 * US
DAY_US = 86400 * US
UNIT_US = {'microseconds': 1, 'milliseconds': 1000, 'seconds': US, 'minutes': 60 * US,
           'hours': 3600 * US, 'days': DAY_US}


def is_leap(y):
    return y % 4 == 0 and (y % 100 != 0 or y % 400 == 0)


def days_in_month(y, m):
    return 29 if m == 2 and is_leap(y) else (31, 28, 31, 30, 31, 30, 31, 31, 30, 31, 30, 31)[m - 1]


def days_from_civil(y, m, d):
    """Days from 1970-01-01 to y-m-d (proleptic Gregorian), counted year by
    year and month by month."""
    y0 = y - 1
    days = 365 * y0 + y0 // 4 - y0 // 100 + y0 // 400          # days before 1 January of year y, from 0001-01-01
    for k in range(1, m):
        days += days_in_month(y, k)
    days += d - 1
    return days - 719162                                        # 0001-01-01 .. 1970-01-01 = 719162 days


def local_us(y, mo, d, h=0, mi=0, s=0, us=0):
    """Microseconds from the epoch to a wall-clock reading taken as if at offset 0."""
    return ((days_from_civil(y, mo, d) * 24 + h) * 60 + mi) * 60 * US + s * US + us


LOCAL_MIN = local_us(1, 1, 1)
LOCAL_MAX = local_us(9999, 12, 31, 23, 59, 59, 999999)


def make(y, mo, d, h, mi, s, us, offset_min):
    """datetime(y, mo, d, h, mi, s, us, offset): the wall clock reads the given
    fields at `offset` from UTC, so the instant is the reading minus the offset."""
    return (local_us(y, mo, d, h, mi, s, us) - offset_min * MIN_US, offset_min)


def wall(dt):
    """Wall-clock reading of a datetime, as microseconds (see local_us)."""
    return dt[0] + dt[1] * MIN_US


def representable(dt):
    """The value can exist: its wall clock lies in years 1..9999."""
    return LOCAL_MIN <= wall(dt) <= LOCAL_MAX


def utc_representable(dt):
    return LOCAL_MIN <= dt[0] <= LOCAL_MAX


def fields(dt):
    """(year, month, day, hour, minute, second, microsecond) of the wall clock."""
    w = wall(dt)
    days, rest = divmod(w, DAY_US)
    y = 1970
    while days < 0:
        y -= 400
        days += 146097
    while days >= 146097:
        y += 400
        days -= 146097
    while days >= (366 if is_leap(y) else 365):
        days -= 366 if is_leap(y) else 365
        y += 1
    m = 1
    while days >= days_in_month(y, m):
        days -= days_in_month(y, m)
        m += 1
    h, rest = divmod(rest, 3600 * US)
    mi, rest = divmod(rest, 60 * US)
    s, us = divmod(rest, US)
    return (y, m, days + 1, h, mi, s, us)


def at_offset(dt, offset_min):
    """The same instant expressed at another offset."""
    return (dt[0], offset_min)


def utc(dt):
    return at_offset(dt, 0)


def plus(dt, span_us):
    """d + t: the instant moves by t, the offset stays."""
    return (dt[0] + span_us, dt[1])


def timespan(days=0, hours=0, minutes=0, seconds=0, milliseconds=0, microseconds=0):
    return (days * DAY_US + hours * 3600 * US + minutes * 60 * US + seconds * US +
            milliseconds * 1000 + microseconds)


def compare(op, a, b):
    """'equality and ordering compare instants'."""
    x, y = a[0], b[0]
    return {'=': x == y, '!=': x != y, '<': x < y, '<=': x <= y, '>': x > y, '>=': x >= y}[op]


def is_number(x):
    return isinstance(x, (int, float)) and not isinstance(x, bool)


def close(observed, exact, us_per_unit):
    """`observed` (a number in some unit) equals the exact rational quantity
    `exact` (same unit) 'up to rounding': the tolerance is max(1 microsecond
    expressed in that unit, 2 ulp of the observed number)."""
    if not is_number(observed) or observed != observed or observed in (float('inf'), float('-inf')):
        return False
    tol = max(Fraction(1, us_per_unit), 2 * Fraction(math.ulp(float(observed))))
    return abs(Fraction(observed) - Fraction(exact)) <= tol


def instant_close(observed_us, exact_us):
    """An instant (integer microseconds) that went through a float number of
    seconds equals the exact one up to max(1 us, 2 ulp of that number of
    seconds)."""
    tol = max(Fraction(1), 2 * Fraction(math.ulp(float(Fraction(exact_us) / US))) * US)
    return abs(Fraction(observed_us) - Fraction(exact_us)) <= tol
