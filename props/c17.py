"""C17 - context trees resolve variables and functions layer by layer.

E2: breadth-first search over histories of operations on a forest of real
Context / MultiContext / LinkedContext objects.  Every transition executes the
operation on freshly rebuilt real objects and on models/layers.py; after every
transition *all* observables of *every* context are compared with the model.
States are deduplicated by a complete snapshot of the real objects.

Two alphabets.  Profiles S, O, M: variables and functions, every overload a
function.  Profile K (overload kinds): functions only, but an overload is a
function, a method or an extension method, a registration may be one the context
has to refuse (a method without a usable receiver parameter; the host catches
InvalidMethodException and carries on), and function collection is observed
without a filter and through the two filters yaql.language.runner.call passes
for `name()` and for `x.name()`.  The model: a refused registration changes
nothing; an exclusive layer ends the walk whether or not the filter keeps any
of its overloads.
"""
import vf.loader  # noqa: F401
from vf import bfs, canon
from vf.core import Result, CURRENT_CASE
from models.layers import Forest, Rejected

from yaql.language import contexts, conventions, specs, yaqltypes

ID = 'C17'
TITLE = 'context forests vs flattened-layers model'
RULE = ('BFS over all histories of {new root, child, MultiContext([x,y]), LinkedContext(x,y), set, delete, register (+-exclusive), '
        'delete_function} within the node/operation/depth bounds of each profile, deduplicated by a full snapshot of the real objects; '
        'profile K replaces set/delete by registrations of function / method / extension-method overloads (+-exclusive) and by registrations '
        'of invalid method specifications (+-exclusive) whose rejection the host catches; '
        'every transition - a refused registration included - is judged on all observables of all contexts (profile K: get_functions and '
        'collect_functions unfiltered, functions only, methods only); a state is non-trivial when the forest contains a multi or linked '
        'context or a child, i.e. more than one layer is involved')
ASSUMPTIONS = ['contexts use the CamelCaseConvention; functions are looked up by their registered name and by their python name with use_convention=True',
               'values are 1, 2, 0 and null (a variable set to null or to a falsy value is defined: it shadows farther layers and is a member/key)',
               'delete_function also clears the exclusive mark of that name in the stores it touches (documented code fact, DESIGN A.4)',
               'values are small integers; function overloads are distinguishable functions named f_g: without parameters (a function) or with '
               'one receiver parameter (@specs.method, @specs.extension_method)',
               'a registration is refused when the specification is a method whose first visible parameter is missing or lazy '
               '(InvalidMethodException, raised by Context.register_function); a refused registration registers nothing and marks nothing',
               'the filters are those of yaql.language.runner.call with the default function_filter: fd.is_function for name(), fd.is_method for x.name(); '
               'a filter removes overloads from the result, never the exclusive mark of a layer',
               'profile K observes functions only (its histories contain no variable operation) and applies the filters to the direct lookup only; '
               'of get_functions with a filter only the overloads are compared (the property says nothing about its exclusive flag under a filter)']
BOUNDS = {
    'quick': 'profile S (structure): <=5 contexts, <=1 data/function operation, depth 6; profile O (operations): <=3 contexts, <=5 operations, depth 5; '
             'profile M: <=4 contexts, <=2 operations, depth 6; values {1, 2, 0, null}; '
             'profile K (overload kinds, refused registrations, filtered collection): <=4 contexts, <=3 function operations, depth 5 '
             '(i.e. 4 contexts + 1 operation, 3 + 2, 2 + 3), <=2 distinct overloads each of kind function / method / extension method, '
             '2 invalid method shapes (no receiver, lazy receiver) x +-exclusive',
    'thorough': 'profile S: <=5 contexts, <=2 operations, depth 6; profile O: <=3 contexts, <=6 operations, depth 6; profile M: <=4 contexts, <=3 operations, depth 7; '
                'profile K: <=4 contexts, <=3 function operations, depth 7 (same kinds and invalid shapes)',
}

SET_EVENTS = (('a', 1), ('a', 2), ('a', None), ('a', 0), ('$', 1), ('1', 2), ('', None))
NAMES = ('a', '$', '1', '')
TAGS = ('t0', 't1')
CREATE = ('root', 'child', 'multi', 'linked')


CONV = conventions.CamelCaseConvention()     # the python name f_g is registered - and looked up with use_convention - as fG
FNAME, PYNAME = 'fG', 'f_g'


# Overload kinds (profile K): 'f' a function (called as fG()), 'm' a method (@specs.method, called as x.fG()),
# 'x' an extension method (both).  A tag is 't<index>' (a function: profiles S, O, M) or 't<index><kind>'.
# Registrations the context must refuse (InvalidMethodException): a method whose receiver parameter is missing or lazy.
BAD_SHAPES = ('no-receiver', 'lazy-receiver')


def kind_of(tag):
    return tag[2:] or 'f'


def is_function(tag):
    return kind_of(tag) in ('f', 'x')


def is_method(tag):
    return kind_of(tag) in ('m', 'x')


# the filters of yaql.language.runner.call (function_filter left at its default): name() collects functions, x.name() methods
PREDICATES = (('functions', lambda fd, ctx: fd.is_function, is_function),
              ('methods', lambda fd, ctx: fd.is_method, is_method))


def _template(tag):
    """The specification of an overload / of a refused registration, made from a python function once per process."""
    kind = kind_of(tag)
    if tag == 'rejected:no-receiver':
        @specs.method
        def f_g():
            return tag
    elif tag == 'rejected:lazy-receiver':
        @specs.method
        @specs.parameter('receiver', yaqltypes.Lambda())
        def f_g(receiver):
            return tag
    elif kind == 'f':
        def f_g():
            return tag
    else:
        def f_g(receiver):
            return tag
        (specs.method if kind == 'm' else specs.extension_method)(f_g)
    fd = specs.get_function_definition(f_g, convention=CONV)
    assert fd.name == FNAME
    if tag.startswith('rejected:'):
        assert fd.is_method and not fd.is_valid_method()
    else:
        assert (fd.is_function, fd.is_method) == (is_function(tag), is_method(tag)) and (not fd.is_method or fd.is_valid_method())
    return fd


TEMPLATES = {}


def _fd(tag):
    """A fresh FunctionDefinition (own parameter objects, own meta) for every world."""
    if tag not in TEMPLATES:
        TEMPLATES[tag] = _template(tag)
    fd = TEMPLATES[tag].clone()
    fd.meta = {'tag': tag}
    return fd


class World(object):
    """The real forest and the model forest, built side by side."""

    def __init__(self):
        self.real = []
        self.model = Forest()
        self.fds = {}

    def fd(self, tag):
        if tag not in self.fds:
            self.fds[tag] = _fd(tag)
        return self.fds[tag]


def apply_real(w, ev):
    op = ev[0]
    r = w.real
    if op == 'root':
        r.append(contexts.Context(convention=CONV))
    elif op == 'child':
        r.append(r[ev[1]].create_child_context())
    elif op == 'multi':
        r.append(contexts.MultiContext([r[ev[1]], r[ev[2]]]))
    elif op == 'linked':
        r.append(contexts.LinkedContext(r[ev[1]], r[ev[2]]))
    elif op == 'set':
        r[ev[1]][ev[2]] = ev[3]
    elif op == 'del':
        del r[ev[1]][ev[2]]
    elif op == 'reg':
        r[ev[1]].register_function(w.fd(ev[2]), exclusive=ev[3])
    elif op == 'delf':
        r[ev[1]].delete_function(w.fd(ev[2]))
    elif op == 'badreg':
        r[ev[1]].register_function(w.fd('rejected:' + ev[2]), exclusive=ev[3])
    else:
        raise AssertionError(ev)


def apply_model(w, ev):
    op = ev[0]
    m = w.model
    if op == 'root':
        m.add()
    elif op == 'child':
        m.add(parent=ev[1])
    elif op == 'multi':
        m.add(kind='multi', members=[ev[1], ev[2]])
    elif op == 'linked':
        m.add(kind='linked', parent=ev[1], linked=ev[2])
    elif op == 'set':
        m.set(ev[1], ev[2], ev[3])
    elif op == 'del':
        m.delete(ev[1], ev[2])
    elif op == 'reg':
        m.register(ev[1], ev[2], ev[3])
    elif op == 'delf':
        m.delete_function(ev[1], ev[2])
    elif op == 'badreg':
        m.register_rejected(ev[1], ev[3])


# what the model's refusal of an operation looks like on the implementation
REFUSALS = {KeyError: 'KeyError', Rejected: 'InvalidMethodException'}


def step(w, ev):
    """Execute one event on the model and on the real objects -> (model's refusal or None, the implementation's, its message)."""
    m_exc = r_exc = r_msg = None
    try:
        apply_model(w, ev)
    except (KeyError, Rejected) as e:
        m_exc = REFUSALS[type(e)]
    try:
        apply_real(w, ev)
    except Exception as e:
        r_exc = type(e).__name__
        r_msg = str(e)[:120]
    return m_exc, r_exc, r_msg


def build(hist):
    """Replays a history; only registrations that model and implementation both refuse may fail on the way."""
    w = World()
    for ev in hist:
        m_exc, r_exc, r_msg = step(w, ev)
        if m_exc != r_exc or (m_exc and ev[0] != 'badreg'):
            raise ValueError('history does not replay: %r: model %s, implementation %s %s' % (ev, m_exc, r_exc, r_msg))
    return w


def topo(w, i):
    n = w.model.nodes[i]
    if n['kind'] == 'plain':
        return 'plain' if n['parent'] is None else 'child-of-' + w.model.nodes[n['parent']]['kind']
    if n['kind'] == 'multi':
        return 'multi'
    return 'linked-to-' + w.model.nodes[n['linked']]['kind']


def _tags(fds):
    return sorted(fd.meta['tag'] for fd in fds)


def observe_all(w, res, filtered=False):
    """Compare every observable of every context; returns a (key, detail) or None.
    filtered (profile K, whose histories contain no variable operation): the function observables only, and in addition
    those seen through the filters the engine uses for function calls and for method calls."""
    m = w.model
    for i, r in enumerate(w.real):
        if not filtered:
            for n in NAMES:
                res.transitions += 1
                if r[n] != m.get(i, n):
                    return ('read-variable ctx=%s' % topo(w, i), 'ctx %d [%r]: model %r real %r' % (i, n, m.get(i, n), r[n]))
                if (n in r) != m.contains(i, n):
                    return ('membership ctx=%s' % topo(w, i), 'ctx %d %r in: model %r real %r' % (i, n, m.contains(i, n), n in r))
            if list(r.keys()) != m.keys(i):
                return ('keys ctx=%s' % topo(w, i), 'ctx %d keys: model %r real %r' % (i, m.keys(i), list(r.keys())))
        m_get, m_col = m.get_functions(i), m.collect(i)
        for lookup, kw in ((FNAME, {}), (PYNAME, {'use_convention': True})):
            if filtered:
                res.transitions += 1
            fs, ex = r.get_functions(lookup, **kw)
            got = (_tags(fs), bool(ex))
            how = 'by-python-name' if kw else 'direct'
            if got != m_get:
                return ('get_functions ctx=%s lookup=%s' % (topo(w, i), how), 'ctx %d: model %r real %r' % (i, m_get, got))
            col = [_tags(layer) for layer in r.collect_functions(lookup, **kw)]
            if col != m_col:
                return ('collect_functions ctx=%s lookup=%s' % (topo(w, i), how), 'ctx %d: model %r real %r' % (i, m_col, col))
        if filtered:
            for pname, pred, keep in PREDICATES:
                res.transitions += 1
                got, exp = _tags(r.get_functions(FNAME, lambda fd: pred(fd, r))[0]), m.get_functions(i, keep)[0]
                if got != exp:
                    return ('get_functions ctx=%s filter=%s' % (topo(w, i), pname), 'ctx %d, %s only: model %r real %r' % (i, pname, exp, got))
                col, exp = [_tags(layer) for layer in r.collect_functions(FNAME, pred)], m.collect(i, keep)
                if col != exp:
                    return ('collect_functions ctx=%s filter=%s' % (topo(w, i), pname), 'ctx %d, %s only: model %r real %r' % (i, pname, exp, col))
    return None


def make_enabled(max_nodes, max_ops, kinds=''):
    """kinds='' (profiles S, O, M): variables and functions, every overload a function.
    kinds='fm' / 'fmx' (profile K): no variables; overloads of these kinds and refused registrations."""
    def enabled(hist, w):
        n = len(w.real)
        nops = sum(1 for e in hist if e[0] not in CREATE)
        evs = []
        if n < max_nodes:
            evs.append(('root',))
            for i in range(n):
                evs.append(('child', i))
            for i in range(n):
                for j in range(n):
                    if i != j:
                        evs.append(('multi', i, j))
                        evs.append(('linked', i, j))
        if nops < max_ops:
            used = [e[2] for e in hist if e[0] == 'reg']
            for i in range(n):
                if not kinds:
                    for name, v in SET_EVENTS:
                        evs.append(('set', i, name, v))
                    for name in NAMES:
                        evs.append(('del', i, name))
                if len(used) < len(TAGS):
                    for t in ([TAGS[len(used)] + k for k in kinds] if kinds else [TAGS[len(used)]]):
                        evs.append(('reg', i, t, False))
                        evs.append(('reg', i, t, True))
                for t in sorted(set(used)):
                    evs.append(('reg', i, t, False))     # the same overload registered in another context
                    evs.append(('delf', i, t))
                if kinds:
                    for shape in BAD_SHAPES:
                        evs.append(('badreg', i, shape, False))
                        evs.append(('badreg', i, shape, True))
        return evs
    return enabled


def refusal_key(w, ev, m_exc, r_exc):
    if ev[0] in ('multi', 'linked'):
        # the model has already appended its node; kinds of the arguments are what matters
        shape = '%s(%s,%s)' % (ev[0], w.model.nodes[ev[1]]['kind'], w.model.nodes[ev[2]]['kind'])
    elif ev[0] in CREATE:
        shape = ev[0] + ('-of-' + topo(w, ev[1]) if ev[0] == 'child' else '')
    else:
        shape = '%s ctx=%s' % (ev[0], topo(w, ev[1]))
    return 'operation-outcome op=%s model=%s real=%s' % (shape, m_exc, r_exc)


def job_search(label, root_hist, max_nodes, max_ops, max_depth, kinds=''):
    res = Result()
    root_hist = tuple(tuple(e) for e in root_hist)

    def judge(hist, ev, w):
        case = {'kind': 'history', 'history': [list(e) for e in hist + (ev,)], 'filtered': bool(kinds)}
        CURRENT_CASE[0] = case
        res.evaluations += 1
        m_exc, r_exc, r_msg = step(w, ev)
        if m_exc != r_exc:
            res.fail(refusal_key(w, ev, m_exc, r_exc), case,
                     'model %s, implementation %s%s' % (m_exc or 'succeeds', r_exc or 'succeeds',
                                                        (': ' + r_msg) if r_exc else ''),
                     size=len(hist) * 100 + len(repr(ev)))
            res.outcomes['op-outcome mismatch'] += 1
            return None
        if m_exc == 'KeyError':
            res.outcomes['op raises KeyError'] += 1
            return None            # both refuse: nothing new to explore
        # a refused registration is judged like any other step: it must leave every observable as it was (the model
        # did not move); the state it leaves is explored further if its snapshot is new, which a correct tree never shows
        bad = observe_all(w, res, bool(kinds))
        if bad is not None:
            res.fail(bad[0] + ' after=%s' % ev[0], case, bad[1], size=len(hist) * 100 + len(repr(ev)))
            res.outcomes['observable mismatch'] += 1
            return None
        res.outcomes[('refused ' if m_exc else 'ok ') + ev[0]] += 1
        return w

    def canon_state(w):
        return canon.digest(canon.snapshot(w.real))

    def on_state(hist, w):
        res.case(hist)
        if any(n['kind'] != 'plain' or n['parent'] is not None for n in w.model.nodes):
            res.nontrivial += 1
        if len(res.samples) < 1 and len(hist) >= max_depth - 1:
            res.sample({'history': [list(e) for e in hist]})

    states, transitions, left = bfs.search(root_hist, make_enabled(max_nodes, max_ops, kinds), build, canon_state,
                                           judge, max_depth, res, on_state)
    res.extra['bfs_states_' + label.split(':')[0]] = states
    res.extra['bfs_transitions_' + label.split(':')[0]] = transitions
    res.extra['bfs_states_at_depth_bound'] = left
    return res


# ---------------------------------------------------------------------------
# trees whose parts use different naming conventions
# ---------------------------------------------------------------------------
def job_conventions():
    """Two small context trees A and B, each registered under its own convention (CamelCase or Python), combined as
    LinkedContext(A, B), LinkedContext(B, A), MultiContext([A, B]), MultiContext([B, A]) and children of those.  Every store
    translates a looked-up python name with the convention it registered its functions with, so collecting by python
    name with use_convention=True finds every layer; a literal name finds only the stores that registered that spelling."""
    import itertools
    res = Result()
    convs = {'camel': conventions.CamelCaseConvention(), 'python': conventions.PythonConvention()}
    regname = {'camel': 'fG', 'python': 'f_g'}

    def tree(label, conv, depth, excl_at):
        """-> list of (context, store description) from root to leaf"""
        chain = []
        ctx = None
        for d in range(depth):
            ctx = contexts.Context(ctx, convention=convs[conv]) if ctx is None else ctx.create_child_context()
            tag = '%s%d' % (label, d)

            def f_g(tag=tag):
                return tag
            ctx.register_function(f_g, exclusive=(excl_at == d))
            fd = next(iter(ctx._functions[regname[conv]]))
            fd.meta = {'tag': tag}
            chain.append((ctx, {'tag': tag, 'conv': conv, 'excl': excl_at == d}))
        return chain

    def expected(layers, lookup):
        """layers: nearest first, each a list of store descriptions."""
        out = []
        for layer in layers:
            hit = [s for s in layer if lookup == 'by-python-name' or lookup == regname[s['conv']]]
            if hit:
                out.append(sorted(s['tag'] for s in hit))
            if any(s['excl'] for s in hit):
                break
        return out

    for ca, cb, da, db, ea, eb in itertools.product(convs, convs, (1, 2), (1, 2), (None, 0), (None, 0, 1)):
        if eb is not None and eb >= db:
            continue
        for topo_ in ('linked(A,B)', 'linked(B,A)', 'multi[A,B]', 'multi[B,A]'):
            A = tree('a', ca, da, ea)
            B = tree('b', cb, db, eb)
            la = [[s] for _c, s in reversed(A)]
            lb = [[s] for _c, s in reversed(B)]
            if topo_.startswith('linked'):
                par, lnk = (A, B) if topo_ == 'linked(A,B)' else (B, A)
                top = contexts.LinkedContext(par[-1][0], lnk[-1][0])
                lp = la if par is A else lb
                ll = lb if par is A else la
                layers = ll + lp
            else:
                first, second = (A, B) if topo_ == 'multi[A,B]' else (B, A)
                top = contexts.MultiContext([first[-1][0], second[-1][0]])
                lf = la if first is A else lb
                ls = lb if first is A else la
                layers = [(lf[k] if k < len(lf) else []) + (ls[k] if k < len(ls) else []) for k in range(max(len(lf), len(ls)))]
            for ctx_name, ctx, lay in ((topo_, top, layers), ('child-of-' + topo_, top.create_child_context(), [[]] + layers)):
                for lookup, name, kw in (('by-python-name', 'f_g', {'use_convention': True}), ('fG', 'fG', {}), ('f_g', 'f_g', {})):
                    case = {'kind': 'conventions', 'A': [ca, da, ea], 'B': [cb, db, eb], 'topology': ctx_name, 'lookup': lookup}
                    CURRENT_CASE[0] = case
                    res.case(('conv', ca, cb, da, db, ea, eb, ctx_name, lookup))
                    res.evaluations += 1
                    res.transitions += 1
                    res.nontrivial += 1
                    try:
                        got = [sorted(fd.meta['tag'] for fd in layer) for layer in ctx.collect_functions(name, **kw)]
                    except Exception as e:
                        got = 'raised %s' % type(e).__name__
                    exp = expected(lay, lookup)
                    res.outcomes['conventions %s' % ('agree' if got == exp else 'differ')] += 1
                    if got != exp:
                        res.fail('collect_functions across a convention boundary ctx=%s lookup=%s'
                                 % (ctx_name.replace('child-of-', 'child-of-').split('(')[0].split('[')[0], 'by-python-name' if kw else 'literal'),
                                 case, 'A=%s B=%s %s lookup %s: model %r real %r' % ((ca, da, ea), (cb, db, eb), ctx_name, lookup, exp, got))
    res.sample({'kind': 'conventions', 'example': "LinkedContext(python-convention host, CamelCase library).collect_functions('f_g', use_convention=True)"})
    return res


# (name, contexts, operations, depth, kinds): see make_enabled for the two alphabets
PROFILES = {
    'quick': (('S', 5, 1, 6, ''), ('O', 3, 5, 5, ''), ('M', 4, 2, 6, ''), ('K', 4, 3, 5, 'fmx')),
    'thorough': (('S', 5, 2, 6, ''), ('O', 3, 6, 6, ''), ('M', 4, 3, 7, ''), ('K', 4, 3, 7, 'fmx')),
}


def jobs(tier, seed):
    out = [('conventions', 'job_conventions', ())]
    for name, max_nodes, max_ops, depth, kinds in PROFILES[tier]:
        # shard by the first three events (histories start with a root)
        en = make_enabled(max_nodes, max_ops, kinds)
        prefixes = [(('root',),)]
        for _ in range(2):
            nxt = []
            for h in prefixes:
                w = build(h)
                for ev in en(h, w):
                    if ev[0] == 'badreg':
                        continue        # judged by the :top job; it leaves the state of the shorter prefix
                    try:
                        build(h + (ev,))
                    except Exception:
                        continue
                    nxt.append(h + (ev,))
            prefixes = nxt
        # the short prefixes themselves are judged by a depth-limited job
        out.append(('%s:top' % name, 'job_search', ('%s:top' % name, [('root',)], max_nodes, max_ops, 3, kinds)))
        for i, h in enumerate(prefixes):
            out.append(('%s:%03d' % (name, i), 'job_search',
                        ('%s:%03d' % (name, i), [list(e) for e in h], max_nodes, max_ops, depth, kinds)))
    return out


def replay(case):
    if case.get('kind') == 'conventions':
        r = job_conventions()
        return {'observed': [f.detail for f in r.failures.values()], 'expected': 'model', 'ok': not r.failures}
    hist = [tuple(e) for e in case['history']]
    res = Result()
    w = build(tuple(hist[:-1]))
    ev = hist[-1]
    m_exc, r_exc, r_msg = step(w, ev)
    outcome = 'operation: model %s, implementation %s' % (m_exc or 'succeeds', ('%s: %s' % (r_exc, r_msg)) if r_exc else 'succeeds')
    if m_exc != r_exc:
        return {'observed': outcome, 'expected': 'the same outcome', 'ok': False}
    if m_exc == 'KeyError':
        return {'observed': outcome, 'expected': 'both refuse', 'ok': True}
    bad = observe_all(w, res, case.get('filtered', False))
    return {'observed': outcome + '; ' + (bad[1] if bad else 'all observables agree'), 'expected': 'all observables as in the model', 'ok': bad is None}
