"""C19 - string and regex functions agree with their reference model.

E3 small-scope enumeration.  Strings: every string of length <= 4 over
{a, b, space, e-acute} plus Unicode samples, under every function of
yaql/standard_library/strings.py with every start in [-len, len+2] and length
in [-2, len+2], separators '' 'a' 'ab' ' ' null, overlapping replacement
dictionaries, replacement dictionaries with keys and values of every scalar
type (different keys spelled alike: 1 / '1', null / 'null', true / 'true'),
all 4096 subsets of the characters(...) flags.  Regex: every concatenation of
<= 3 atoms of {a b . (a) (?P<x>b) a* (a|b) ^ $ (b)? ((a)b) (?P<y>a)?
(?:(?P<z>a)|(?P<w>b)) (?P<o>(?P<n>a)|b)} - numbered and named groups, also
optional, in one arm of an alternation and nested in such an arm, so that they
stay out of some matches - under all 8 flag combinations against strings over
{a, b, newline} plus upper-case / Unicode samples, through matches, =~, !~,
search, searchAll, split, replace, replaceBy, with selector lambdas reading
$1 $2 $3 $x and, generated per pattern, the value / start / end field of every
numbered and every named record the pattern publishes.  Every finalised result
is compared exactly (value and type) with models/strs.py / models/rx.py.
"""
import collections.abc
import itertools

import vf.loader  # noqa: F401
from vf import yq
from vf.core import Result
from models import strs as S
from models import rx as R

from yaql.language import exceptions as yexc

ID = 'C19'
TITLE = 'string and regex functions'
RULE = ('one case = (function form, arguments); string cases enumerate every string of the corpus with every '
        'start/length/separator/chars/count argument of the bound, regex cases every (pattern, flags, string, '
        'function form, selector); a case is non-trivial when the model defines a value for it (inside the '
        'documented domain); cases are distinct by (form text, arguments)')
ASSUMPTIONS = [
    'engine options (yaql.limitIterators, yaql.memoryQuota within their limits, yaql.convertOutputData, '
    'yaql.convertInputData) do not change what a string or regex function computes',
    'Python `re` is the documented regex dialect: the model takes the sequence of leftmost non-overlapping matches '
    'from re.finditer and derives search/searchAll/split/replace/replaceBy and the published records itself',
    'CPython Unicode tables are the reference for case mapping and for "whitespace characters"',
    'a negative start counts from the end (property statement); length -1 means "up to the end of the string" for '
    'substring (docstring) and, by the same convention, for the 3-argument indexOf/lastIndexOf; other negative '
    'lengths, starts below -len, empty separators/old strings, negative limits other than the documented default '
    'are out of domain',
    'replace(dict) applies the entries one after another in dictionary order, as the three docstring examples show; '
    'an entry with a non-string key or value stands for the str() of both (the library\'s own test replaces '
    '{1 => y, 2 => false, null => "!"}); keys that are equal as dictionary keys (1 and true) are not put into one '
    'dictionary',
    'matches / =~ mean "some substring matches" (the meaning search documents); a group that took no part in a '
    'match is published as {value: null, start: -1, end: -1} (re convention)',
    'characters(letters/lowercase/uppercase) denote the ASCII letters (locale-independent reading of the docstring)',
]
BOUNDS = {
    'quick': 'strings: all of length <= 3 over {a,b,space,e-acute} (85) + 16 Unicode samples under every string function '
             '(substring start x length, indexOf/lastIndexOf with 6 substrings x start, split/rightSplit x 5 separators x '
             '4 limits, trim family x 5 char sets, replace 6x4x5, 16 ordered dictionaries x 4 counts, affixes, operators); '
             'typed replacement dictionaries: keys {a, "1", 1, null, "null", true, "true"} x values {x, 1, null}, every '
             'one-entry dictionary and every ordered pair of entries with different keys (381) x 27 subjects made of the '
             'spellings x (literal without count, count 1, 2; passed as data without count, count => 1); '
             'the 16 strings of length 4 over {a,b} under substring with every start x length; 4-argument indexOf/lastIndexOf on '
             'length <= 2 (all substrings) and length 3 (1 substring); all 4096 characters() flag subsets; regex (14 atoms, 4 of '
             'them with a group that can stay out of a match, 3 of these named): the '
             '211 patterns of <= 2 atoms x 6 core forms x (16 strings without flags, 8 strings under each of the 7 other '
             'flag sets) + 20 further forms without flags on 8 strings; the 3-atom patterns without flags x 2 strings x 6 '
             'core forms; for every pattern with a group the 3 generated field forms (search, searchAll, replaceBy reading '
             'value/start/end of every numbered and named record) wherever the core forms run without flags or with all '
             'three flags, and 2 more replaceBy field forms (string receiver, counts) where the further forms run; '
             'every (pattern <= 2 atoms, flag set) also built with positional flags, a skipped slot, on the legacy engine '
             'and through context("regex", engine)(...), each judged by searchAll on 4 flag-sensitive probes; a '
             'representative form of every function family (21 string forms x 37 strings, characters, 6 regex forms and the '
             '3 field forms x 15 patterns x 17 strings) under 3 engine option sets (iterator/memory limits, convertOutputData off, '
             'convertInputData off)',
    'thorough': 'strings: all of length <= 4 (341) + 16 samples under every string function, 10 substrings, 4-argument '
                'indexOf/lastIndexOf on all, operators against all strings of length <= 3; typed replacement dictionaries: '
                '9 keys (also 12, "12") x 4 values (also ""), one and two entries (1156), '
                'x 37 subjects x (literal without count, count 0, 1, 2; as data without count, count => -1, 1); regex: all '
                'patterns of <= 2 atoms x 8 flag sets x 28 strings (55 without flags) x 6 core forms + the 3 generated field '
                'forms for patterns with groups, and without flags 26 forms (+ 2 field forms) on the 55 strings; all patterns '
                'of 3 atoms x 6 core forms x (28 strings without flags, the 8 flag-sensitive strings under each of the 7 other '
                'flag sets), the 3 field forms without flags and with all three flags, and without flags 26 forms (+ 2 field '
                'forms) on 8 strings; '
                'the 4 other flag spellings for every (pattern <= 2 atoms, flag set) and for 3-atom patterns where multiLine != dotAll; '
                'the option-set runs as in quick',
}

# ---------------------------------------------------------------------------
# corpora (simplest first)
# ---------------------------------------------------------------------------
ALPHA = ['a', 'b', ' ', '\xe9']
SAMPLES = ['\U0001f600', 'a\U0001f600b', '\ta\t', 'A', 'aB', 'Ab ', '\xc9a', '\xdf', 'ǅb',
           '\xa0a\xa0', 'a\nb', ' \t\n', 'ABab', 'aaaaab', '\xa0', '\u2003\x1f\x85']   # the last two: non-ASCII whitespace only


def over(alpha, maxlen):
    return [''.join(p) for k in range(maxlen + 1) for p in itertools.product(alpha, repeat=k)]


STRINGS = over(ALPHA, 4) + SAMPLES
SHORT2 = over(ALPHA, 2)
SHORT3 = over(ALPHA, 3)

SUBS_Q = ['', 'a', 'b', 'ab', 'aa', '\xe9']
SUBS_T = SUBS_Q + ['ba', ' ', 'bb', 'aba']
SUBS_Q3 = ['ab']        # quick: 3-argument forms on strings of length 3
SEPS = [None, 'a', 'ab', '', ' ']
CHARS = [None, '', 'a', 'ab', ' \xe9']
OLDS = ['a', 'ab', 'aa', ' ', '\xe9', '']
NEWS = ['', 'X', 'a', 'ba']
COUNTS = [-1, 0, 1, 2]
AFFIXES = ['', 'a', 'b ', 'ab', '\xe9']
# ordered replacement dictionaries; keys overlap (a/ab/aa/b), some values feed later keys
DICTS = [
    [('a', 'X')], [('ab', 'X'), ('a', 'Y')], [('a', 'Y'), ('ab', 'X')], [('a', 'X'), ('aa', 'Y')],
    [('aa', 'Y'), ('a', 'X')], [('ab', ''), ('b', 'X')], [('b', 'X'), ('ab', '')], [('a', 'b'), ('b', 'a')],
    [('b', 'a'), ('a', 'b')], [('a', 'ab'), ('ab', 'X')], [(' ', ''), ('ab', ' ')], [('a', 'X'), ('b', 'Y'), ('ab', 'Z')],
    [('ab', 'Z'), ('a', 'X'), ('b', 'Y')], [('a', 'a')], [('ba', 'ab'), ('ab', 'ba')], [],
]

# replacement dictionaries whose keys and values are not all strings: every one-entry dictionary and every ordered
# pair of entries with different keys (keys that are EQUAL as dictionary keys - 1 and true - are one key of a
# dictionary, not two entries, and are left out), so that different keys with the same spelling (1 / '1',
# null / 'null', true / 'true', 12 / '12'), keys that are substrings of one another (1 / 12), and values that feed
# the next key ('a' => 1, 1 => 'x') all occur in both orders.  Subjects: concatenations of the spellings.
TKEYS_Q = ['a', '1', 1, None, 'null', True, 'true']
TKEYS_T = TKEYS_Q + [12, '12']
TVALS_Q = ['x', 1, None]
TVALS_T = TVALS_Q + ['']
TTOKENS_Q = ['a', '1', 'null', 'true']
TTOKENS_T = TTOKENS_Q + ['2']
TSUBJECTS_3 = ['a1b1', 'a12b1', '1null1', 'truetrue1', '1a1a1', '12121']


def typed_dicts(tier):
    keys, vals = (TKEYS_T, TVALS_T) if tier == 'thorough' else (TKEYS_Q, TVALS_Q)
    out = [[(k, v)] for k in keys for v in vals]
    for k1, k2 in itertools.permutations(keys, 2):
        if k1 != k2:
            out.extend([(k1, v1), (k2, v2)] for v1, v2 in itertools.product(vals, repeat=2))
    return out


def typed_subjects(tier):
    return over(TTOKENS_T if tier == 'thorough' else TTOKENS_Q, 2) + TSUBJECTS_3


# named groups: x always takes part; y is optional, z / w are the two arms of an alternation, n is nested in one arm
# of the alternation inside o - each of them stays out of some matches (every atom has its own names, so that any
# two different atoms can be combined)
ATOMS = ['a', 'b', '.', '(a)', '(?P<x>b)', 'a*', '(a|b)', '^', '$', '(b)?', '((a)b)',   # optional group: may not participate; nested groups
         '(?P<y>a)?', '(?:(?P<z>a)|(?P<w>b))', '(?P<o>(?P<n>a)|b)']
FLAGSETS = list(itertools.product([False, True], repeat=3))      # (ignoreCase, multiLine, dotAll)
RX_SAMPLES = ['A', 'aB', 'Ab\n', 'B\nA', '\xe9', 'a\xe9b', ' a ', 'abab', 'baab', 'a\nb\n', 'aaaa',
              '\U0001f600a', 'AB\nab', '\n\nb', 'bbab']
RX_STRINGS_2 = over(['a', 'b', '\n'], 2)
RX_STRINGS_3 = over(['a', 'b', '\n'], 3)
RX_FEW = ['ab', 'ba\nab']
RX_MORE_Q = ['', 'a', 'ab', 'ba', '\n', 'a\n', 'A', 'Ab\n']          # the further forms: quick, and 3-atom patterns in thorough
RX_FLAGGED_Q = ['', 'a', 'b', '\n', 'ab', 'a\nb', '\nb', 'Ab\n']    # runs with flags set: quick, and 3-atom patterns in thorough


def patterns(max_atoms):
    """(pattern text, number of atoms), each text once (fewest atoms first)."""
    out, seen = [], set()
    for k in range(max_atoms + 1):
        for p in itertools.product(ATOMS, repeat=k):
            text = ''.join(p)
            if text not in seen:
                seen.add(text)
                out.append((text, k))
    return out


# selector lambdas: (yaql text, the model's reading on the published environment)
def _v(env, name, field=None):
    rec = R.var(env, name)
    return rec if field is None or rec is None else rec[field]


SEL_ALL = ('[$, $1, $2, $3, $x, $y, $n]',       # whole records; a name the pattern does not publish reads null
           lambda e: [_v(e, '1'), _v(e, '1'), _v(e, '2'), _v(e, '3'), _v(e, 'x'), _v(e, 'y'), _v(e, 'n')])
SELECTORS = [
    ('$', lambda e: _v(e, '1')),
    ('$.start', lambda e: _v(e, '1', 'start')),
    ('[$1.value, $1.start, $1.end]', lambda e: [_v(e, '1', 'value'), _v(e, '1', 'start'), _v(e, '1', 'end')]),
    ('$2', lambda e: _v(e, '2')),
    ('$x', lambda e: _v(e, 'x')),
]


def _s(v):
    return S.str_(v)[1]


# `$2 and $2.value`: null when nothing was published, else the field (language reference: and returns
# the left operand when it is false, else the right one; a record is a non-empty dictionary, hence true)
LAM_ALL = ("'<' + $1.value + str($1.start) + '|' + str($2 and $2.value) + '|' + str($x and $x.end) + '>'",
           lambda e: '<' + _v(e, '1', 'value') + _s(_v(e, '1', 'start')) + '|' + _s(_v(e, '2', 'value')) +
           '|' + _s(_v(e, 'x', 'end')) + '>')
LAM_UP = ('$.value.toUpper() + $1.value', lambda e: _v(e, '1', 'value').upper() + _v(e, '1', 'value'))
LAM_EMPTY = ("''", lambda e: '')

# regex forms: name -> (yaql text, model call on (rx, s)).  `$r` is the object returned by regex(...).
CORE_FORMS = [
    ('matches', '$r.matches($s)', lambda rx, s: R.matches(rx, s)),
    ('search+sel', '$r.search($s, %s)' % SEL_ALL[0], lambda rx, s: R.search(rx, s, SEL_ALL[1])),
    ('searchAll+sel', '$r.searchAll($s, %s)' % SEL_ALL[0], lambda rx, s: R.search_all(rx, s, SEL_ALL[1])),
    ('split', '$r.split($s)', lambda rx, s: R.split(rx, s)),
    ('replace', "$r.replace($s, 'X')", lambda rx, s: R.replace(rx, s, 'X')),
    ('replaceBy', '$r.replaceBy($s, %s)' % LAM_ALL[0], lambda rx, s: R.replace_by(rx, s, LAM_ALL[1])),
]


def _neg(r):
    return ('v', not r[1])


MORE_FORMS = [
    ('=~', '$s =~ $r', lambda rx, s: R.matches(rx, s)),
    ('!~', '$s !~ $r', lambda rx, s: _neg(R.matches(rx, s))),
    ('search', '$r.search($s)', lambda rx, s: R.search(rx, s)),
    ('searchAll', '$r.searchAll($s)', lambda rx, s: R.search_all(rx, s)),
] + [
    ('search sel=%s' % t, '$r.search($s, %s)' % t, (lambda f: lambda rx, s: R.search(rx, s, f))(f))
    for t, f in SELECTORS
] + [
    ('searchAll sel=$2', '$r.searchAll($s, $2)', lambda rx, s: R.search_all(rx, s, SELECTORS[3][1])),
    ('split str-receiver', '$s.split($r)', lambda rx, s: R.split(rx, s)),
    ('split max=1', '$r.split($s, 1)', lambda rx, s: R.split(rx, s, 1)),
    ('split str-receiver max=2', '$s.split($r, maxSplit => 2)', lambda rx, s: R.split(rx, s, 2)),
    ('replace str-receiver', "$s.replace($r, '')", lambda rx, s: R.replace(rx, s, '')),
    ('replace count=1', "$r.replace($s, 'ab', 1)", lambda rx, s: R.replace(rx, s, 'ab', 1)),
    ('replaceBy str-receiver count=1', '$s.replaceBy($r, %s, 1)' % LAM_UP[0],
     lambda rx, s: R.replace_by(rx, s, LAM_UP[1], 1)),
    ('replaceBy empty count=2', '$r.replaceBy($s, %s, count => 2)' % LAM_EMPTY[0],
     lambda rx, s: R.replace_by(rx, s, LAM_EMPTY[1], 2)),
]


# Selectors generated from the pattern: they read the value, start and end field of EVERY record a match of the
# pattern publishes - $1 (whole match), $2.. (the numbered groups, named ones included) and every group name.
# null and '' stay distinct (a list element, or str() = 'null' in a replacement; the subjects never contain "null").
def published(rx):
    return [str(i + 1) for i in range(rx.groups + 1)] + sorted(rx.groupindex, key=rx.groupindex.get)


def fields_selector(rx):
    names = published(rx)
    text = '[%s]' % ', '.join('[$%s.value, $%s.start, $%s.end]' % (n, n, n) for n in names)
    return text, lambda e: [[_v(e, n, 'value'), _v(e, n, 'start'), _v(e, n, 'end')] for n in names]


def fields_lambda(rx):
    names = published(rx)
    text = ' + '.join("'<' + str($%s.value) + ',' + str($%s.start) + ',' + str($%s.end) + '>'" % (n, n, n)
                      for n in names)
    return text, lambda e: ''.join('<%s,%s,%s>' % (_s(_v(e, n, 'value')), _s(_v(e, n, 'start')), _s(_v(e, n, 'end')))
                                   for n in names)


def _group_form(text, build, model):
    def form(rx):
        sel_text, sel = build(rx)
        return text % sel_text, lambda rx_, s: model(rx_, s, sel)
    return form


# name -> function of the model's compiled pattern giving (yaql text, model call on (rx, s))
GROUP_CORE_FORMS = [
    ('search fields', _group_form('$r.search($s, %s)', fields_selector, R.search)),
    ('searchAll fields', _group_form('$r.searchAll($s, %s)', fields_selector, R.search_all)),
    ('replaceBy fields', _group_form('$r.replaceBy($s, %s)', fields_lambda, R.replace_by)),
]
GROUP_MORE_FORMS = [
    ('replaceBy fields count=2', _group_form('$r.replaceBy($s, %s, count => 2)', fields_lambda,
                                             lambda rx, s, f: R.replace_by(rx, s, f, 2))),
    ('replaceBy str-receiver fields count=1', _group_form('$s.replaceBy($r, %s, 1)', fields_lambda,
                                                          lambda rx, s, f: R.replace_by(rx, s, f, 1))),
]
GROUP_FORMS = dict(GROUP_CORE_FORMS + GROUP_MORE_FORMS)

# pattern given as a string (no flags possible)
TEXT_FORMS = [
    ('matches str-pattern', '$s.matches($p)', lambda rx, s: R.matches(rx, s)),
    ('=~ str-pattern', '$s =~ $p', lambda rx, s: R.matches(rx, s)),
    ('!~ str-pattern', '$s !~ $p', lambda rx, s: _neg(R.matches(rx, s))),
]
FORMS = {name: (text, fn) for name, text, fn in CORE_FORMS + MORE_FORMS + TEXT_FORMS}
USES_SELECTOR = {name for name, text, fn in CORE_FORMS + MORE_FORMS if ('search' in name and 'sel' in name)
                 or name.startswith('replaceBy')} | set(GROUP_FORMS)


def form_of(name, rx):
    """(yaql text, model call) of a regex form; the group forms depend on the pattern's groups."""
    return GROUP_FORMS[name](rx) if name in GROUP_FORMS else FORMS[name]

KEY_NAMED = ('regex selector/replaceBy over a pattern with a named group raises ValueError '
             '(_publish_match unpacks groupdict().values())')
KEY_CHARS = ('characters(letters|lowercase|uppercase => true) raises AttributeError '
             '(string.letters/lowercase/uppercase do not exist in Python 3)')


# ---------------------------------------------------------------------------
# observation and comparison
# ---------------------------------------------------------------------------
# engine options that must not change what a string / regex function computes
OPTION_SETS = {
    'limits': {'yaql.limitIterators': 1000, 'yaql.memoryQuota': 1000000},
    'raw-output': {'yaql.convertOutputData': False},
    'raw-input': {'yaql.convertInputData': False},
}


def finalised(v):
    """What an unfinalised result (yaql.convertOutputData off) denotes: lazy
    and immutable sequences as lists, mappings as dicts."""
    if isinstance(v, str) or v is None:
        return v
    if isinstance(v, collections.abc.Mapping):
        return {k: finalised(x) for k, x in v.items()}
    if isinstance(v, (collections.abc.Iterator, list, tuple)):
        return [finalised(x) for x in v]
    return v


def observe(text, variables, options=None, legacy=False):
    try:
        v = yq.evaluate(text, variables=variables, options=OPTION_SETS.get(options), legacy=legacy)
        return ('v', finalised(v) if options == 'raw-output' else v)
    except (yexc.NoMatchingFunctionException, yexc.NoMatchingMethodException):
        return S.NOMATCH
    except Exception as e:
        return ('e', type(e).__name__)


def same(x, y):
    """Exact equality of a finalised result and a model value, kinds included
    (a sequence must arrive as a list, a record as a dict; a set-valued model
    result is matched by a duplicate-free list)."""
    if isinstance(y, set):
        return isinstance(x, list) and len(set(x)) == len(x) and set(x) == y and all(type(c) is str for c in x)
    if type(x) is not type(y):
        return False
    if isinstance(y, list):
        return len(x) == len(y) and all(same(p, q) for p, q in zip(x, y))
    if isinstance(y, dict):
        return sorted(x) == sorted(y) and all(same(x[k], y[k]) for k in y)
    return x == y


def agree(obs, exp):
    if obs[0] != exp[0]:
        return False
    return obs[1] == exp[1] if obs[0] == 'e' else same(obs[1], exp[1])


def shape(obs):
    if obs[0] == 'e':
        return 'error:' + obs[1]
    v = obs[1]
    if isinstance(v, str):
        return 'str' if v else 'str:empty'
    if isinstance(v, bool) or v is None:
        return repr(v)
    if isinstance(v, int):
        return 'int:-1' if v == -1 else 'int'
    if isinstance(v, (list, dict)):
        return '%s:%s' % (type(v).__name__, 'empty' if not v else 'n')
    return type(v).__name__


def show(v):
    r = repr(v)
    return r if len(r) < 300 else r[:300] + '...'


def with_dicts(variables, dict_vars):
    """`dict_vars` = {name: [(key, value), ...]}: variables holding a dictionary with these entries (kept as
    pairs in the case description: JSON object keys can only be strings)."""
    if not dict_vars:
        return variables
    return dict(variables, **{name: dict((k, v) for k, v in pairs) for name, pairs in dict_vars.items()})


def judge(res, site, text, variables, call, key=None, options=None, dict_vars=None):
    """Run one string-function case.  `call` = (model function name, args)."""
    case = {'kind': 'str', 'site': site, 'text': text, 'vars': variables, 'call': [call[0], list(call[1])]}
    ident = (site, text, sorted(variables.items(), key=repr))
    if dict_vars:
        case['dict_vars'] = dict_vars
        ident += (repr(sorted(dict_vars.items())),)
    if options:
        case['options'] = options
        ident += (options,)
        key = key or 'model-mismatch fn=%s options=%s' % (site, options)
    res.case(ident)
    exp = getattr(S, call[0])(*call[1])
    obs = observe(text, with_dicts(variables, dict_vars), options)
    res.evaluations += 1
    res.transitions += 1
    if exp is None:
        res.out_of_domain += 1
        res.outcomes[site.split('/')[0] + ' out-of-domain'] += 1
        return
    res.nontrivial += 1
    res.outcomes['%s %s' % (site.split('/')[0], shape(obs))] += 1
    if not agree(obs, exp):
        res.fail(key or 'model-mismatch fn=%s' % site, case, 'observed %s expected %s' % (show(obs), show(exp)))
    elif exp[0] == 'v' and isinstance(exp[1], list) and not options:
        check_representation(res, site.split('/')[0], text, with_dicts(variables, dict_vars), case, exp[1])


def check_representation(res, fn, text, variables, case, expected):
    """A list-valued result that is handed over as a SEQUENCE (not lazily) is a yaql list inside the language too:
    immutable, equal to the list the model predicts, usable where values are compared and hashed.  (The finalised
    value looks the same for every sequence type; the unfinalised one is looked at here.)"""
    try:
        raw = yq.evaluate(text, variables=variables, options=OPTION_SETS['raw-output'])
    except Exception:
        return
    res.evaluations += 1
    if not isinstance(raw, (list, tuple)):
        return                  # an iterator / generator: lazy results are compared by nobody
    vs = dict(variables or {}, expected__=_frozen(expected))
    for wrapped, want in (('(%s) = $expected__' % text, True), ('[%s, $expected__].distinct().len()' % text, 1)):
        got = observe(wrapped, vs)
        res.evaluations += 1
        if got != ('v', want):
            res.fail('python-mutable-result fn=%s (a sequence result that is not a yaql list inside the language)' % fn,
                     dict(case, wrapped=wrapped), '%s gave %s, expected %r; the unfinalised result is a %s'
                     % (wrapped, show(got), want, type(raw).__name__))
            return


def _frozen(v):
    return tuple(_frozen(x) for x in v) if isinstance(v, list) else v


# ---------------------------------------------------------------------------
# string jobs
# ---------------------------------------------------------------------------
def quote(s):
    assert all(32 <= ord(c) < 127 and c not in "'\\" for c in s)
    return "'" + s + "'"


def literal(v):
    """null, true, false and numbers as the language spells them; strings quoted."""
    return quote(v) if isinstance(v, str) else _s(v)


def dict_literal(pairs):
    return '{' + ', '.join('%s => %s' % (literal(k), literal(v)) for k, v in pairs) + '}'


def job_typed_dicts(tier, dicts):
    """string.replace(dictionary[, count]) with keys and values of every scalar type, the dictionary written as a
    literal and passed as data."""
    res = Result()
    thorough = tier == 'thorough'
    subjects = typed_subjects(tier)
    for pairs in dicts:
        lit = dict_literal(pairs)
        pairs = [list(e) for e in pairs]
        for s in subjects:
            v = {'s': s}
            judge(res, 'replace-dict typed/2', '$s.replace(%s)' % lit, v, ('replace_dict', (s, pairs)))
            for k in (0, 1, 2) if thorough else (1, 2):
                judge(res, 'replace-dict typed/3', '$s.replace(%s, $k)' % lit, dict(v, k=k),
                      ('replace_dict', (s, pairs, k)))
            judge(res, 'replace-dict typed/var', '$s.replace($d)', v, ('replace_dict', (s, pairs)),
                  dict_vars={'d': pairs})
            for k in (-1, 1) if thorough else (1,):
                judge(res, 'replace-dict typed/var', '$s.replace($d, count => $k)', dict(v, k=k),
                      ('replace_dict', (s, pairs, k)), dict_vars={'d': pairs})
    return res


def job_strings(tier, strings):
    res = Result()
    thorough = tier == 'thorough'
    subs = SUBS_T if thorough else SUBS_Q
    for s in strings:
        n = len(s)
        starts = list(range(-n, n + 3))
        lengths = list(range(-2, n + 3))
        v = {'s': s}
        full = thorough or n <= 3 or s in SAMPLES      # quick: of the length-4 grid strings only those over {a, b},
        if not full and set(s) - set('ab'):            # and through substring only
            continue
        # substring ------------------------------------------------------
        for a in starts:
            judge(res, 'substring/2', '$s.substring($a)', dict(v, a=a), ('substring', (s, a)))
            for b in lengths:
                judge(res, 'substring/3', '$s.substring($a, $b)', dict(v, a=a, b=b), ('substring', (s, a, b)))
        if not full:
            continue
        # indexOf / lastIndexOf -------------------------------------------
        for u in subs:
            judge(res, 'indexOf/2', '$s.indexOf($u)', dict(v, u=u), ('index_of', (s, u)))
            judge(res, 'lastIndexOf/2', '$s.lastIndexOf($u)', dict(v, u=u), ('last_index_of', (s, u)))
            for a in starts:
                judge(res, 'indexOf/3', '$s.indexOf($u, $a)', dict(v, u=u, a=a), ('index_of', (s, u, a)))
                judge(res, 'lastIndexOf/3', '$s.lastIndexOf($u, $a)', dict(v, u=u, a=a),
                      ('last_index_of', (s, u, a)))
                if thorough or n <= 2 or (n == 3 and u in SUBS_Q3):
                    for b in lengths:
                        judge(res, 'indexOf/4', '$s.indexOf($u, $a, $b)', dict(v, u=u, a=a, b=b),
                              ('index_of', (s, u, a, b)))
                        judge(res, 'lastIndexOf/4', '$s.lastIndexOf($u, $a, $b)', dict(v, u=u, a=a, b=b),
                              ('last_index_of', (s, u, a, b)))
        # split / rightSplit / join ----------------------------------------
        judge(res, 'split/1', '$s.split()', v, ('split', (s,)))
        judge(res, 'rightSplit/1', '$s.rightSplit()', v, ('right_split', (s,)))
        for p in SEPS:
            judge(res, 'split/2', '$s.split($p)', dict(v, p=p), ('split', (s, p)))
            for k in COUNTS:
                judge(res, 'split/3', '$s.split($p, $k)', dict(v, p=p, k=k), ('split', (s, p, k)))
                judge(res, 'rightSplit/3', '$s.rightSplit($p, maxSplits => $k)', dict(v, p=p, k=k),
                      ('right_split', (s, p, k)))
            if p:       # split and join are inverse for non-empty separators
                judge(res, 'split-join', '$s.split($p).join($p)', dict(v, p=p), ('concat', (s,)),
                      key='law: s.split(sep).join(sep) = s')
                judge(res, 'rightSplit-join', '$p.join($s.rightSplit($p))', dict(v, p=p), ('concat', (s,)),
                      key='law: sep.join(s.rightSplit(sep)) = s')
        # trim family --------------------------------------------------------
        for fn, mf in (('trim', 'trim'), ('trimLeft', 'trim_left'), ('trimRight', 'trim_right'), ('norm', 'norm')):
            judge(res, fn + '/1', '$s.%s()' % fn, v, (mf, (s,)))
            for c in CHARS:
                judge(res, fn + '/2', '$s.%s($c)' % fn, dict(v, c=c), (mf, (s, c)))
        judge(res, 'isEmpty/1', '$s.isEmpty()', v, ('is_empty', (s,)))
        for t in (True, False):
            judge(res, 'isEmpty/2', '$s.isEmpty($t)', dict(v, t=t), ('is_empty', (s, t)))
            for c in CHARS:
                judge(res, 'isEmpty/3', '$s.isEmpty($t, $c)', dict(v, t=t, c=c), ('is_empty', (s, t, c)))
        for c in CHARS:     # the documented keyword spelling
            judge(res, 'isEmpty/kw', '$s.isEmpty(trim => false, chars => $c)', dict(v, c=c), ('is_empty', (s, False, c)))
        # replace --------------------------------------------------------------
        for old in OLDS:
            for new in NEWS:
                judge(res, 'replace/3', '$s.replace($o, $n)', dict(v, o=old, n=new), ('replace', (s, old, new)))
                for k in COUNTS:
                    judge(res, 'replace/4', '$s.replace($o, $n, $k)', dict(v, o=old, n=new, k=k),
                          ('replace', (s, old, new, k)))
        for pairs in DICTS:
            lit = dict_literal(pairs)
            judge(res, 'replace-dict/2', '$s.replace(%s)' % lit, v, ('replace_dict', (s, pairs)))
            for k in (0, 1, 2):
                judge(res, 'replace-dict/3', '$s.replace(%s, $k)' % lit, dict(v, k=k), ('replace_dict', (s, pairs, k)))
        judge(res, 'replace-dict/var', '$s.replace($d, count => 1)', dict(v, d=dict(DICTS[1])),
              ('replace_dict', (s, DICTS[1], 1)))
        # case, affixes, characters of a string ----------------------------------
        judge(res, 'toUpper', '$s.toUpper()', v, ('to_upper', (s,)))
        judge(res, 'toLower', '$s.toLower()', v, ('to_lower', (s,)))
        judge(res, 'toCharArray', '$s.toCharArray()', v, ('to_char_array', (s,)))
        judge(res, 'len', '$s.len()', v, ('len_', (s,)))
        judge(res, 'len', 'len($s)', v, ('len_', (s,)))
        judge(res, 'str', 'str($s)', v, ('str_', (s,)))
        judge(res, 'startsWith/0', '$s.startsWith()', v, ('starts_with', (s,)))
        judge(res, 'endsWith/0', '$s.endsWith()', v, ('ends_with', (s,)))
        for x in AFFIXES:
            judge(res, 'startsWith/1', '$s.startsWith($x)', dict(v, x=x), ('starts_with', (s, x)))
            judge(res, 'endsWith/1', '$s.endsWith($x)', dict(v, x=x), ('ends_with', (s, x)))
            for y in AFFIXES:
                judge(res, 'startsWith/2', '$s.startsWith($x, $y)', dict(v, x=x, y=y), ('starts_with', (s, x, y)))
                judge(res, 'endsWith/2', '$s.endsWith($x, $y)', dict(v, x=x, y=y), ('ends_with', (s, x, y)))
        # operators ------------------------------------------------------------------
        for k in (-1, 0, 1, 2, 3):
            judge(res, 'op *', '$s * $k', dict(v, k=k), ('repeat', (s, k)))
            judge(res, 'op *', '$k * $s', dict(v, k=k), ('repeat', (s, k)))
        if thorough or n <= 2:
            for t in (SHORT3 if thorough else SHORT2):
                w = dict(v, t=t)
                judge(res, 'op +', '$s + $t', w, ('concat', (s, t)))
                judge(res, 'concat', 'concat($s, $t, $s)', w, ('concat', (s, t, s)))
                judge(res, 'op in', '$t in $s', w, ('contains', (t, s)))
                for op in ('<', '<=', '>', '>=', '=', '!='):
                    judge(res, 'op ' + op, '$s %s $t' % op, w, ('compare', (op, s, t)))
        if len(res.samples) < 2:
            res.sample({'text': '$s.substring($a, $b)', 's': s, 'a': -1, 'b': 1,
                        'observed': show(observe('$s.substring($a, $b)', {'s': s, 'a': -1, 'b': 1}))})
    return res


FLAG_VARS = ['f%d' % i for i in range(len(S.FLAGS))]
CHARACTERS_TEXT = 'characters(%s)' % ', '.join('%s => $%s' % (f, x) for f, x in zip(S.FLAGS, FLAG_VARS))
HEX_VALUES = [0, 1, -1, 9, 10, 15, 16, 255, 256, -255, 4095, 2 ** 31, 2 ** 64, -2 ** 64, 10 ** 20, 1.5, None, True]
STR_VALUES = [None, True, False, 0, 1, -1, 10, -12345, 2 ** 64, 10 ** 30, '', 'a', 'null', '\xe9 \U0001f600',
              0.0, -0.0, 0.5, 1.0, 1e16, 1e-7, 123456789.125, [1, 2]]
JOIN_ITEMS = ['', 'a', 'b', 'ab']
JOIN_SEPS = ['', 'a', 'ab', ', ']


def job_misc(tier):
    """characters(...) for every subset of its 12 flags; hex; str; join."""
    res = Result()
    for bits in itertools.product([False, True], repeat=len(S.FLAGS)):
        on = [f for f, b in zip(S.FLAGS, bits) if b]
        broken = bool({'letters', 'lowercase', 'uppercase'} & set(on))
        forms = [(CHARACTERS_TEXT, dict(zip(FLAG_VARS, bits)))]
        if len(on) <= 2:        # the spelling with the other flags omitted
            forms.append(('characters(%s)' % ', '.join('%s => true' % f for f in on), {}))
        for text, variables in forms:
            case = {'kind': 'characters', 'text': text, 'vars': variables, 'flags': on}
            res.case(('characters', text, bits))
            exp = S.characters(on)
            obs = observe(text, variables)
            res.evaluations += 1
            res.transitions += 1
            res.nontrivial += 1
            res.outcomes['characters %s' % shape(obs)] += 1
            if not agree(obs, exp):
                key = (KEY_CHARS if broken and obs == ('e', 'AttributeError')
                       else 'model-mismatch fn=characters')
                res.fail(key, case, 'observed %s expected %s' % (show(obs), show(sorted(exp[1]))))
    for x in HEX_VALUES:
        judge(res, 'hex', 'hex($x)', {'x': x}, ('hex_', (x,)))
    for x in STR_VALUES:
        judge(res, 'str', 'str($x)', {'x': x}, ('str_', (x,)))
    for k in range(4):
        for items in itertools.product(JOIN_ITEMS, repeat=k):
            for p in JOIN_SEPS:
                w = {'l': list(items), 'p': p}
                judge(res, 'join seq-receiver', '$l.join($p)', w, ('join', (list(items), p)))
                judge(res, 'join str-receiver', '$p.join($l)', w, ('join', (list(items), p)))
    judge(res, 'join seq-receiver', '$l.join($p)', {'l': ['a', 1], 'p': ','}, ('join', (['a', 1], ',')))
    return res


# ---------------------------------------------------------------------------
# regex jobs
# ---------------------------------------------------------------------------
REGEX_TEXT = 'regex($p, ignoreCase => $i, multiLine => $m, dotAll => $d)'


def build_regex(p, flags):
    """The object under test is built by the implementation's regex()."""
    if not any(flags):
        return observe('regex($p)', {'p': p})
    return observe(REGEX_TEXT, {'p': p, 'i': flags[0], 'm': flags[1], 'd': flags[2]})


# The flags of regex(pattern, ignoreCase, multiLine, dotAll) can also be given by position, with a skipped
# slot, on the legacy engine (which has no `=>`), and by the host through context(name, engine)(...).
RX_FLAG_PROBES = ['a\nb', '\nb\n', 'A\na', 'ab']      # '.' against a newline, ^ $ at inner line boundaries, case


def build_spelling(spelling, p, flags):
    v = {'p': p, 'i': flags[0], 'm': flags[1], 'd': flags[2]}
    if spelling == 'positional':
        return observe('regex($p, $i, $m, $d)', v)
    if spelling == 'skipped-slot':
        return observe('regex($p, , $m, $d)', v)
    if spelling == 'legacy-positional':
        return observe('regex($p, $i, $m, $d)', v, legacy=True)
    if spelling == 'host-call':
        try:
            return ('v', yq.root()('regex', yq.engine())(p, *flags))
        except Exception as e:
            return ('e', type(e).__name__)
    raise ValueError(spelling)


def spellings(flags):
    return ['positional', 'legacy-positional', 'host-call'] + ([] if flags[0] else ['skipped-slot'])


def judge_spelling(res, spelling, p, flags, rx):
    """regex() called in another spelling denotes the same regex: searchAll on the probes."""
    robj = build_spelling(spelling, p, flags)
    res.evaluations += 1
    for s in RX_FLAG_PROBES:
        case = {'kind': 'rx-spelling', 'spelling': spelling, 'pattern': p, 'flags': list(flags), 's': s}
        res.case(('rx-spelling', spelling, p, flags, s))
        exp = R.search_all(rx, s)
        obs = observe('$r.searchAll($s)', {'r': robj[1], 's': s}) if robj[0] == 'v' else robj
        res.evaluations += 1
        res.transitions += 1
        res.nontrivial += 1
        res.outcomes['rx spelling %s %s' % (spelling, shape(obs))] += 1
        if not agree(obs, exp):
            res.fail('model-mismatch fn=regex() flags spelling=%s' % spelling, case,
                     'observed %s expected %s' % (show(obs), show(exp)))


def judge_rx(res, name, p, flags, s, robj, rx, options=None):
    text, model = form_of(name, rx)
    case = {'kind': 'rx', 'form': name, 'pattern': p, 'flags': list(flags), 's': s}
    ident = ('rx', name, p, flags, s)
    if options:
        case['options'] = options
        ident += (options,)
    res.case(ident)
    exp = model(rx, s)
    obs = observe(text, {'s': s, 'p': p} if robj is None else {'s': s, 'r': robj}, options)
    res.evaluations += 1
    res.transitions += 1
    if exp is None:
        res.out_of_domain += 1
        res.outcomes['rx %s out-of-domain' % name.split()[0]] += 1
        return
    res.nontrivial += 1
    res.outcomes['rx %s %s' % (name.split()[0], shape(obs))] += 1
    if not agree(obs, exp):
        if '(?P<' in p and name in USES_SELECTOR and obs == ('e', 'ValueError'):
            key = KEY_NAMED
        else:
            key = 'model-mismatch fn=regex %s' % name + (' options=%s' % options if options else '')
        res.fail(key, case, 'observed %s expected %s' % (show(obs), show(exp)))
    elif exp[0] == 'v' and isinstance(exp[1], list) and not options and all(isinstance(x, str) for x in exp[1]):
        check_representation(res, 'regex ' + name.split()[0], text, {'s': s, 'p': p} if robj is None else {'s': s, 'r': robj},
                             case, exp[1])


def job_regex(tier, pats):
    res = Result()
    thorough = tier == 'thorough'
    for p, natoms in pats:
        atoms3 = natoms == 3
        for flags in FLAGSETS:
            plain = not any(flags)
            if not thorough and atoms3 and not plain:
                continue
            rx = R.compile_(p, *flags)
            robj = build_regex(p, flags)
            res.case(('regex', p, flags))
            res.evaluations += 1
            res.transitions += 1
            if rx is None:              # `re` rejects the pattern (two groups named x): no documented meaning
                res.out_of_domain += 1
                res.outcomes['regex() invalid pattern: %s' % shape(robj)] += 1
                continue
            res.nontrivial += 1
            if robj[0] != 'v':
                res.fail('model-mismatch fn=regex()', {'kind': 'regex', 'pattern': p, 'flags': list(flags)},
                         'observed %s expected a regex object' % show(robj))
                continue
            res.outcomes['regex() object'] += 1
            if not atoms3 or (thorough and flags[1] != flags[2]):
                for spelling in spellings(flags):
                    judge_spelling(res, spelling, p, flags, rx)
            if thorough and atoms3 and not plain:
                strings = RX_FLAGGED_Q
            elif thorough:
                strings = (RX_STRINGS_3 if plain and not atoms3 else RX_STRINGS_2) + RX_SAMPLES
            else:
                strings = RX_FEW if atoms3 else (RX_STRINGS_2 + RX_SAMPLES[:3] if plain else RX_FLAGGED_Q)
            for s in strings:
                for name, _, _ in CORE_FORMS:
                    judge_rx(res, name, p, flags, s, robj[1], rx)
                # without a group the generated selectors read $1 only (as SELECTORS[2]); under the 6 other flag
                # sets only in the thorough tier for <= 2 atoms
                if rx.groups and (plain or all(flags) or (thorough and not atoms3)):
                    for name, _ in GROUP_CORE_FORMS:
                        judge_rx(res, name, p, flags, s, robj[1], rx)
                if plain and (thorough or not atoms3) and (thorough and not atoms3 or s in RX_MORE_Q):
                    for name, _, _ in MORE_FORMS:
                        judge_rx(res, name, p, flags, s, robj[1], rx)
                    if rx.groups:
                        for name, _ in GROUP_MORE_FORMS:
                            judge_rx(res, name, p, flags, s, robj[1], rx)
                    for name, _, _ in TEXT_FORMS:
                        judge_rx(res, name, p, flags, s, None, rx)
        if len(res.samples) < 2 and p:
            res.sample({'pattern': p, 's': 'abab',
                        'searchAll': show(observe('regex($p).searchAll($s, $)', {'p': p, 's': 'abab'}))})
    return res


# one representative form per function family: (site, text, variables, model call) for a string s
def representative(s):
    v = {'s': s}
    return [
        ('substring/3', '$s.substring($a, $b)', dict(v, a=-2, b=1), ('substring', (s, -2, 1))),
        ('indexOf/4', '$s.indexOf($u, $a, $b)', dict(v, u='a', a=-2, b=2), ('index_of', (s, 'a', -2, 2))),
        ('lastIndexOf/3', '$s.lastIndexOf($u, $a)', dict(v, u='a', a=1), ('last_index_of', (s, 'a', 1))),
        ('split/1', '$s.split()', v, ('split', (s,))),
        ('split/3', '$s.split($p, $k)', dict(v, p='a', k=1), ('split', (s, 'a', 1))),
        ('rightSplit/3', '$s.rightSplit($p, maxSplits => $k)', dict(v, p='a', k=1), ('right_split', (s, 'a', 1))),
        ('split-join', '$s.split($p).join($p)', dict(v, p='a'), ('concat', (s,))),
        ('trim/2', '$s.trim($c)', dict(v, c='a'), ('trim', (s, 'a'))),
        ('norm/1', '$s.norm()', v, ('norm', (s,))),
        ('isEmpty/3', '$s.isEmpty($t, $c)', dict(v, t=True, c='a '), ('is_empty', (s, True, 'a '))),
        ('replace/4', '$s.replace($o, $n, $k)', dict(v, o='a', n='ba', k=1), ('replace', (s, 'a', 'ba', 1))),
        ('replace-dict/var', '$s.replace($d)', dict(v, d=dict(DICTS[1])), ('replace_dict', (s, DICTS[1]))),
        ('toUpper', '$s.toUpper()', v, ('to_upper', (s,))),
        ('toCharArray', '$s.toCharArray()', v, ('to_char_array', (s,))),
        ('len', '$s.len()', v, ('len_', (s,))),
        ('startsWith/2', '$s.startsWith($x, $y)', dict(v, x='a', y='b '), ('starts_with', (s, 'a', 'b '))),
        ('op *', '$s * $k', dict(v, k=3), ('repeat', (s, 3))),
        ('op +', '$s + $t', dict(v, t='\xe9'), ('concat', (s, '\xe9'))),
        ('op in', '$t in $s', dict(v, t='a'), ('contains', ('a', s))),
        ('op <', '$s < $t', dict(v, t='ab'), ('compare', ('<', s, 'ab'))),
        ('join seq-receiver', '$l.join($s)', dict(v, l=['a', '', 'b']), ('join', (['a', '', 'b'], s))),
    ]


def job_options(tier, options):
    """Engine options must not change what these functions compute: a representative form of every
    function family under iterator/memory limits, with output conversion off (results read
    unfinalised) and with input conversion off."""
    res = Result()
    for s in SHORT2 + SAMPLES:
        for site, text, variables, call in representative(s):
            judge(res, site, text, variables, call, options=options)
    for bits in ([True] * 12, [False] * 12, [i % 3 == 0 for i in range(12)]):
        on = [f for f, b in zip(S.FLAGS, bits) if b]
        res.case(('characters', tuple(bits), options))
        obs = observe(CHARACTERS_TEXT, dict(zip(FLAG_VARS, bits)), options)
        res.evaluations += 1
        res.transitions += 1
        res.nontrivial += 1
        res.outcomes['characters %s' % shape(obs)] += 1
        if not agree(obs, S.characters(on)):
            res.fail('model-mismatch fn=characters options=%s' % options,
                     {'kind': 'characters', 'text': CHARACTERS_TEXT, 'vars': dict(zip(FLAG_VARS, bits)),
                      'flags': on, 'options': options}, 'observed %s' % show(obs))
    for p, natoms in patterns(1):
        for flags in (FLAGSETS[0], FLAGSETS[-1]):
            rx = R.compile_(p, *flags)
            robj = observe(REGEX_TEXT, {'p': p, 'i': flags[0], 'm': flags[1], 'd': flags[2]}, options)
            res.evaluations += 1
            if robj[0] != 'v':
                res.fail('model-mismatch fn=regex() options=%s' % options,
                         {'kind': 'regex', 'pattern': p, 'flags': list(flags)}, 'observed %s' % show(robj))
                continue
            for s in RX_STRINGS_2 + RX_FLAG_PROBES:
                for name in [n for n, _, _ in CORE_FORMS] + ([n for n, _ in GROUP_CORE_FORMS] if rx.groups else []):
                    judge_rx(res, name, p, flags, s, robj[1], rx, options)
    return res


def jobs(tier, seed):
    out = [('options-' + o, 'job_options', (tier, o)) for o in sorted(OPTION_SETS)]
    n_str = 30
    for i in range(n_str):
        out.append(('strings-%02d' % i, 'job_strings', (tier, STRINGS[i::n_str])))
    out.append(('misc', 'job_misc', (tier,)))
    dicts = typed_dicts(tier)
    n_td = 16 if tier == 'thorough' else 6
    for i in range(n_td):
        out.append(('typed-dicts-%d' % i, 'job_typed_dicts', (tier, dicts[i::n_td])))
    pats = patterns(3)
    n_rx = 30
    for i in range(n_rx):
        out.append(('regex-%02d' % i, 'job_regex', (tier, pats[i::n_rx])))
    return out


# ---------------------------------------------------------------------------
# replay
# ---------------------------------------------------------------------------
def replay(case):
    k = case['kind']
    if k == 'str':
        exp = getattr(S, case['call'][0])(*case['call'][1])
        obs = observe(case['text'], with_dicts(case['vars'], case.get('dict_vars')), case.get('options'))
        return {'observed': show(obs), 'expected': show(exp), 'ok': exp is None or agree(obs, exp)}
    if k == 'characters':
        exp = S.characters(case['flags'])
        obs = observe(case['text'], case['vars'], case.get('options'))
        return {'observed': show(obs), 'expected': show(sorted(exp[1])), 'ok': agree(obs, exp)}
    if k == 'regex':
        obs = build_regex(case['pattern'], tuple(case['flags']))
        return {'observed': show(obs), 'expected': 'a regex object', 'ok': obs[0] == 'v'}
    if k == 'rx-spelling':
        flags = tuple(case['flags'])
        exp = R.search_all(R.compile_(case['pattern'], *flags), case['s'])
        robj = build_spelling(case['spelling'], case['pattern'], flags)
        obs = observe('$r.searchAll($s)', {'r': robj[1], 's': case['s']}) if robj[0] == 'v' else robj
        return {'observed': show(obs), 'expected': show(exp), 'ok': agree(obs, exp)}
    if k == 'rx':
        flags = tuple(case['flags'])
        rx = R.compile_(case['pattern'], *flags)
        text, model = form_of(case['form'], rx)
        exp = model(rx, case['s'])
        if text.find('$p') >= 0:
            obs = observe(text, {'s': case['s'], 'p': case['pattern']}, case.get('options'))
        else:
            robj = build_regex(case['pattern'], flags)
            if robj[0] != 'v':
                return {'observed': show(robj), 'expected': show(exp), 'ok': False}
            obs = observe(text, {'s': case['s'], 'r': robj[1]}, case.get('options'))
        return {'observed': show(obs), 'expected': show(exp), 'ok': exp is None or agree(obs, exp)}
    return {'ok': False, 'observed': 'unknown case kind'}
