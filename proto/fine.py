import warnings; warnings.filterwarnings('ignore')
import sys, threading, time
import yaql
from yaql.language import utils, specs, yaqltypes
from yaql.standard_library import queries

eng = yaql.YaqlFactory().create()
ROOT = yaql.create_context()

# ---- a seeded "mutant": distinct with module-level scratch (hoisted local)
_scratch = set()
def distinct_mut(engine, collection, key_selector=None):
    _scratch.clear()
    for t in collection:
        key = t if key_selector is None else key_selector(t)
        if key not in _scratch:
            _scratch.add(key)
            yield t
def install_mutant():
    c = ROOT
    while c is not None:
        for fd in c._functions.get('distinct', ()):
            orig = fd.payload
            distinct_mut.__name__ = 'distinct'
            fd.payload = distinct_mut
        c = c.parent

class Fine:
    """bound-1 schedules: thread A runs until its k-th line event, then B runs to completion, then A resumes."""
    def __init__(self, bodyA, bodyB, k):
        self.k = k; self.n = 0; self.bodies = (bodyA, bodyB)
        self.semA = threading.Semaphore(0); self.semB = threading.Semaphore(0); self.main = threading.Semaphore(0)
        self.res = [None, None]; self.switched = False
    def tracer(self, frame, event, arg):
        if '/repo/yaql/' not in frame.f_code.co_filename: return None
        return self.local
    def local(self, frame, event, arg):
        if event == 'line':
            self.n += 1
            if self.n == self.k and not self.switched:
                self.switched = True
                self.semB.release(); self.semA.acquire()     # hand over to B, wait until B finished
        return self.local
    def runA(self):
        sys.settrace(self.tracer)
        try: self.res[0] = ('ok', self.bodies[0]())
        except Exception as e: self.res[0] = ('exc', type(e).__name__)
        finally: sys.settrace(None)
        if not self.switched: self.switched = True; self.semB.release(); self.semA.acquire()
        self.main.release()
    def runB(self):
        self.semB.acquire()
        try: self.res[1] = ('ok', self.bodies[1]())
        except Exception as e: self.res[1] = ('exc', type(e).__name__)
        self.semA.release()
    def go(self):
        ta = threading.Thread(target=self.runA); tb = threading.Thread(target=self.runB)
        ta.start(); tb.start(); self.main.acquire(); ta.join(); tb.join()
        return self

def count_lines(body):
    f = Fine(body, lambda: None, -1); f.go(); return f.n

def explore(stA, dA, stB, dB, step=1):
    bodyA = lambda: stA.evaluate(data=dA, context=ROOT.create_child_context())
    bodyB = lambda: stB.evaluate(data=dB, context=ROOT.create_child_context())
    baseA, baseB = ('ok', bodyA()), ('ok', bodyB())
    n = count_lines(bodyA)
    bad = []; t0 = time.time(); runs = 0
    for k in range(1, n + 1, step):
        f = Fine(bodyA, bodyB, k).go(); runs += 1
        if f.res[0] != baseA or f.res[1] != baseB: bad.append((k, f.res))
    dt = time.time() - t0
    return n, runs, bad, dt

if __name__ == '__main__':
    st1 = eng('$.distinct().toList()'); st2 = eng('$.distinct().select($ * 2).toList()')
    d1 = [1, 1, 2, 3, 3]; d2 = [3, 3, 1, 2, 2]
    n, runs, bad, dt = explore(st1, d1, st2, d2)
    print('pinned tree: line events', n, 'schedules', runs, 'violating', len(bad), 'ms/schedule %.1f' % (dt / runs * 1000))
    install_mutant()
    n, runs, bad, dt = explore(st1, d1, st2, d2)
    print('seeded scratch mutant: line events', n, 'schedules', runs, 'violating', len(bad), 'first', bad[:2], 'ms/schedule %.1f' % (dt / runs * 1000))
    # coarse granularity equivalent? preempt only at runner.call entries: count how many of the violating ks fall right at a call entry -> skipped here
