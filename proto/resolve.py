"""Throw-away prototype: reference model of overload resolution vs real yaql."""
import warnings; warnings.filterwarnings('ignore')
import itertools, sys, collections
import yaql
from yaql.language import contexts, specs, yaqltypes, exceptions, utils

class A: pass
class B(A): pass
class C: pass
TYPES = {'Any': object, 'A': A, 'B': B, 'C': C}
SUB = {('B', 'A'), ('A', 'Any'), ('B', 'Any'), ('C', 'Any')}   # strict subclass pairs
VALS = {'a': A(), 'b': B(), 'c': C(), 'n': None}
def isinst(vname, t):
    if vname == 'n': return None
    return isinstance(VALS[vname], TYPES[t])
SKIP = 'SKIP'

# ---- parameter / overload description
# param: (name, kind, type, nullable, has_default)   kind in pos, varargs, kwonly, varkw, hidden
def build_fn(tag, params, kind):
    sig = []; decos = []
    seen_star = False
    for (name, k, t, nullable, hasdef) in params:
        if k == 'pos': sig.append(name + ('=DEF' if hasdef else ''))
        elif k == 'hidden': sig.append(name + ('=None' if any('=' in x for x in sig) else ''))
        elif k == 'varargs': sig.append('*' + name); seen_star = True
        elif k == 'kwonly':
            if not seen_star: sig.append('*'); seen_star = True
            sig.append(name + ('=DEF' if hasdef else ''))
        elif k == 'varkw': sig.append('**' + name)
    src = 'def %s(%s):\n    return %r\n' % ('fn', ', '.join(sig), tag)
    ns = {'DEF': VALS['b']}
    exec(src, ns); fn = ns['fn']
    for (name, k, t, nullable, hasdef) in params:
        if k == 'hidden': fn = specs.inject(name, yaqltypes.Engine())(fn)
        elif t == 'Lazy': fn = specs.parameter(name, yaqltypes.Lambda())(fn)
        else: fn = specs.parameter(name, yaqltypes.PythonType(TYPES[t], nullable))(fn)
    if kind == 'method': fn = specs.method(fn)
    elif kind == 'ext': fn = specs.extension_method(fn)
    fn = specs.name('foo')(fn)
    fn = specs.meta('tag', tag)(fn)
    return fn

class OrderedCtx(contexts.Context):
    def get_functions(self, name, predicate=None, use_convention=False):
        s, ex = super().get_functions(name, predicate, use_convention)
        return sorted(s, key=lambda fd: fd.meta.get('tag', '')), ex

# ---- the model
def m_bind(params, args, kwargs):
    """returns mapping: list of (argkey, param) or None.  args: list of items, item = ('var',v)|('const',c)|SKIP"""
    vis = [p for p in params if p[1] != 'hidden']
    pos = [p for p in vis if p[1] == 'pos']
    varargs = next((p for p in vis if p[1] == 'varargs'), None)
    kwonly = [p for p in vis if p[1] == 'kwonly']
    varkw = next((p for p in vis if p[1] == 'varkw'), None)
    kwargs = dict(kwargs); mapping = []
    for i, a in enumerate(args):
        if i < len(pos):
            p = pos[i]
            if a == SKIP:
                if p[0] in kwargs: return None      # skipped slot + same keyword: conflict
                if not p[4]: return None            # needs default
                mapping.append((i, p, 'default'))
            else:
                if p[0] in kwargs: return None
                mapping.append((i, p, a))
        else:
            if varargs is None: return None
            if a == SKIP: return None               # MODEL ASSUMPTION: no skipped slot in *args
            mapping.append((i, varargs, a))
    for p in pos[len(args):]:
        if p[0] in kwargs: mapping.append((p[0], p, kwargs.pop(p[0])))
        elif not p[4]: return None
    for p in kwonly:
        if p[0] in kwargs: mapping.append((p[0], p, kwargs.pop(p[0])))
        elif not p[4]: return None
    for k, v in kwargs.items():
        if varkw is None: return None
        mapping.append((k, varkw, v))
    return mapping

def m_typecheck_static(mapping, has_recv=False):
    # constants and nulls are checked before evaluation; variables pass; the receiver is already a value
    for key, p, a in mapping:
        if p[2] == 'Lazy': continue
        if has_recv and key == 0 and a != 'default' and a[0] == 'var':
            r = isinst(a[1], p[2])
            if r is None:
                if not p[3]: return False
            elif not r: return False
            continue
        if a == 'default': v = ('var', 'b')
        else: v = a
        if v[0] == 'const':
            if v[1] is None:
                if not p[3]: return False
            elif p[2] != 'Any': return False      # constant 1 is only an object
    return True

def m_typecheck_dynamic(mapping):
    for key, p, a in mapping:
        if p[2] == 'Lazy': continue
        v = ('var', 'b') if a == 'default' else a
        if v[0] == 'const':
            if v[1] is None and not p[3]: return False
            if v[1] is not None and p[2] != 'Any': return False
        else:
            r = isinst(v[1], p[2])
            if r is None:
                if not p[3]: return False
            elif not r: return False
    return True

def m_spec(m1, m2):
    d1 = {k: p for k, p, a in m1}; d2 = {k: p for k, p, a in m2}
    res = False
    for k in d1:
        t1, t2 = d1[k][2], d2[k][2]
        if 'Lazy' in (t1, t2): continue
        if (t2, t1) in SUB: return False
        if (t1, t2) in SUB: res = True
    return res

def model(layers, call):
    """layers: list (nearest first) of (exclusive, [overload]); overload = (tag, params, kind)"""
    recv, args, kwargs = call
    want = 'method' if recv is not None else 'function'
    cl = []
    for excl, ovs in layers:
        sel = [o for o in ovs if o[2] == 'ext' or o[2] == want]
        if sel: cl.append(sel)
        if excl: break
    if not cl: return 'unknown'
    eff = ([recv] if recv is not None else []) + list(args)
    surv = []; lazysets = set()
    for layer in cl:
        s = []
        for o in layer:
            m = m_bind(o[1], eff, kwargs)
            if m is None or not m_typecheck_static(m, recv is not None): continue
            lazysets.add(frozenset(k for k, p, a in m if p[2] == 'Lazy'))
            s.append((o, m))
        if s: surv.append(s)
    if not surv: return 'nomatch'
    if len(lazysets) > 1: return 'ambiguous'
    for layer in surv:
        ok = [(o, m) for o, m in layer if m_typecheck_dynamic(m)]
        if not ok: continue
        if len(ok) == 1: return ok[0][0][0]
        win = [x for x in ok if all(x is y or m_spec(x[1], y[1]) for y in ok)]
        if len(win) == 1: return win[0][0][0]
        return 'ambiguous'
    return 'nomatch'

# ---- real
eng = yaql.YaqlFactory().create()
ROOT = yaql.create_context()
def real(layers, call):
    ctx = ROOT
    for excl, ovs in reversed(layers):
        ctx = OrderedCtx(ctx)
        for (tag, params, kind) in ovs:
            try: ctx.register_function(build_fn(tag, params, kind), exclusive=excl)
            except exceptions.InvalidMethodException: return 'x', 'INVALID'
    top = ctx.create_child_context()
    for k, v in VALS.items(): top[k] = v
    recv, args, kwargs = call
    def it(a):
        if a == SKIP: return ''
        if a[0] == 'var': return '$' + a[1]
        return 'null' if a[1] is None else repr(a[1])
    argtxt = ', '.join([it(a) for a in args] + ['%s => %s' % (k, it(v)) for k, v in kwargs.items()])
    txt = ('%s.foo(%s)' % (it(recv), argtxt)) if recv is not None else 'foo(%s)' % argtxt
    try:
        return txt, eng(txt).evaluate(context=top)
    except exceptions.NoFunctionRegisteredException: return txt, 'unknown'
    except exceptions.NoMethodRegisteredException: return txt, 'unknown'
    except (exceptions.NoMatchingFunctionException, exceptions.NoMatchingMethodException): return txt, 'nomatch'
    except (exceptions.AmbiguousFunctionException, exceptions.AmbiguousMethodException): return txt, 'ambiguous'
    except exceptions.YaqlParsingException: return txt, 'PARSE'
    except Exception as e: return txt, 'EXC:' + type(e).__name__

if __name__ == '__main__':
    # parameter shapes (core)
    shapes = []
    for t in ('Any', 'A', 'B', 'Lazy'):
        shapes.append(('pos', t, False, False))
    shapes += [('pos', 'A', True, False), ('pos', 'A', False, True), ('pos', 'Any', True, True)]
    plist = [()]
    for s in shapes: plist.append((('x',) + s,))
    for s1 in shapes:
        for s2 in shapes:
            if s1[3] and not s2[3]: continue   # python: no non-default after default
            plist.append((('x',) + s1, ('y',) + s2))
    ext = []
    for pl in plist:
        ext.append(pl)
        ext.append(pl + (('r', 'varargs', 'Any', True, False),))
        ext.append((('h', 'hidden', 'Any', False, False),) + pl)
        if len(pl) == 2:
            ext.append((pl[0], ('h', 'hidden', 'Any', False, False), pl[1]))
        ext.append(pl + (('kw', 'varkw', 'Any', True, False),))
        ext.append(pl + (('k', 'kwonly', 'A', False, True),))
    print('param lists', len(ext))
    items = [('var', 'a'), ('var', 'b'), ('var', 'c'), ('var', 'n'), ('const', 1), ('const', None)]
    calls = []
    for n in range(0, 3):
        for args in itertools.product(items + [SKIP], repeat=n):
            if args and args[-1] == SKIP: continue
            calls.append((None, args, {}))
            if n <= 1:
                for kname in ('x', 'y', 'k', 'zz'):
                    for v in (('var', 'a'), ('var', 'c')):
                        calls.append((None, args, {kname: v}))
    for recv in (('var', 'a'), ('var', 'c')):
        for n in range(0, 2):
            for args in itertools.product(items, repeat=n):
                calls.append((recv, args, {}))
    print('calls', len(calls))
    import random
    mode = sys.argv[1] if len(sys.argv) > 1 else 'single'
    n = bad = 0; hist = collections.Counter(); examples = collections.OrderedDict()
    def run(layers):
        global n, bad
        for call in calls:
            exp = model(layers, call)
            txt, got = real(layers, call)
            if got == 'INVALID': continue
            n += 1; hist[exp] += 1
            if exp != got:
                bad += 1
                key = (exp if exp in ('unknown', 'nomatch', 'ambiguous') else 'tag', got if got in ('unknown', 'nomatch', 'ambiguous', 'PARSE') or str(got).startswith('EXC') else 'tag')
                examples.setdefault(key, [])
                if len(examples[key]) < 4: examples[key].append((layers, txt, exp, got))
    if mode == 'single':
        for kind in ('function', 'method', 'ext'):
            for pl in ext:
                run([(False, [('t1', pl, kind)])])
    else:
        rnd = random.Random(int(sys.argv[3]) if len(sys.argv) > 3 else 1)
        pairs = [(p1, p2) for p1 in ext for p2 in ext]
        rnd.shuffle(pairs)
        for p1, p2 in pairs[:int(sys.argv[2])]:
            k1, k2 = rnd.choice(['function', 'ext', 'method']), rnd.choice(['function', 'ext'])
            lay = rnd.choice(['same', 'child', 'excl'])
            if lay == 'same': layers = [(False, [('t1', p1, k1), ('t2', p2, k2)])]
            elif lay == 'child': layers = [(False, [('t1', p1, k1)]), (False, [('t2', p2, k2)])]
            else: layers = [(True, [('t1', p1, k1)]), (False, [('t2', p2, k2)])]
            run(layers)
    print('cases', n, 'mismatch', bad, dict(hist))
    for k, v in examples.items():
        print('==', k)
        for e in v: print('   ', e)
