"""Selftests of the machinery itself (run by setup.sh)."""
import math
import os
import sys

sys.path.insert(0, os.path.realpath(os.path.join(os.path.dirname(__file__), '..')))
from vf import sched, canon


def test_schedule_counts():
    # closed form: interleavings of threads with p_i points = multinomial over (p_i + 1) segments
    for pts in ((2, 2), (3, 1), (1, 1, 1), (2, 2, 2)):
        bodies = []
        for p in pts:
            def body(p=p):
                for j in range(p):
                    sched.point('p%d' % j)
                return p
            bodies.append(body)
        seen = set()
        n, capped = sched.explore(bodies, None, lambda x: seen.add(tuple(x.trace)))
        segs = [p + 1 for p in pts]
        expect = math.factorial(sum(segs))
        for s in segs:
            expect //= math.factorial(s)
        assert n == expect and not capped, (pts, n, expect)
        # distinct traces: the first segment of each thread has no tag, so several schedules share a trace
        n0, _ = sched.explore(bodies, 0, lambda x: None)
        assert n0 == math.factorial(len(pts)), (pts, n0)   # bound 0: only thread orders


def test_sharded_exploration_is_a_partition():
    def mk(p):
        def body():
            for j in range(p):
                sched.point('p%d' % j)
        return body
    bodies = [mk(3), mk(2), mk(2)]
    for bound in (1, 2, None):
        whole = []
        sched.explore(bodies, bound, lambda x: whole.append(tuple(x.choices)))
        parts = []
        for k in range(4):
            sched.explore(bodies, bound, lambda x: parts.append(tuple(x.choices)), shard=(k, 4))
        assert sorted(parts) == sorted(whole) and len(set(parts)) == len(parts), (bound, len(parts), len(whole))


def test_lost_update_found_at_bound_1():
    # classic check-then-act: found with 1 preemption, not with 0
    for bound, expect_bad in ((0, False), (1, True)):
        box = {'v': 0}

        def reset():
            box['v'] = 0

        def inc():
            sched.point('read')
            t = box['v']
            sched.point('write')
            box['v'] = t + 1
        bad = []
        sched.explore([inc, inc], bound, lambda x: bad.append(1) if box['v'] != 2 else None, reset=reset)
        assert bool(bad) == expect_bad, (bound, bad)


def test_replay_determinism():
    log = []

    def body(tag):
        def f():
            sched.point('a')
            log.append(tag)
            sched.point('b')
            log.append(tag)
        return f
    x1 = sched.run_schedule([body(0), body(1)], [0, 1, 1, 0])
    l1 = list(log)
    del log[:]
    x2 = sched.run_schedule([body(0), body(1)], [0, 1, 1, 0])
    assert x1.trace == x2.trace and l1 == log, (x1.trace, x2.trace)


def test_snapshot():
    class A(object):
        pass
    a = A(); a.x = [1, 2, {'k': a}]; a.s = {3, 1, 2}
    b = A(); b.x = [1, 2, {'k': b}]; b.s = {1, 2, 3}
    assert canon.snapshot(a) == canon.snapshot(b)
    b.x[2]['k'] = A()
    assert canon.snapshot(a) != canon.snapshot(b)


def test_fixed_replays():
    """Every witness of a repaired defect is re-executed as a plain unit test (no explorer):
    the repaired tree must satisfy it.  Skipped when running against a scratch repository."""
    import glob
    import importlib
    import json
    if os.path.realpath(os.environ.get('YAQL_VERIF_REPO', '/repo')) != '/repo':
        return
    import vf.loader  # noqa: F401
    here = os.path.realpath(os.path.join(os.path.dirname(__file__), '..'))
    n = 0
    for f in sorted(glob.glob(os.path.join(here, 'replays_fixed', '*.json'))):
        rec = json.load(open(f))
        mod = importlib.import_module('props.' + rec['property'].lower())
        out = mod.replay(rec['case'])
        assert out.get('ok'), (f, out)
        n += 1
    print('   replayed %d fixed witnesses' % n)


if __name__ == '__main__':
    for name, fn in sorted(globals().items()):
        if name.startswith('test_'):
            fn()
            print('selftest', name, 'ok')

