import warnings; warnings.filterwarnings('ignore')
import itertools, collections, sys
from yaql.language import contexts, specs, utils

NAMES = ['a', '$']
def norm(n):
    if not n.startswith('$'): n = '$' + n
    return '$1' if n == '$' else n

# ---------------- model
class M:
    def __init__(self): self.nodes = []   # each: dict(kind, parent, members, linked, data(dict), funcs(list of tags), excl(bool))
    def add(self, **kw):
        d = dict(kind='plain', parent=None, members=None, linked=None, data={}, funcs=[], excl=False); d.update(kw)
        self.nodes.append(d); return len(self.nodes) - 1
    def layers(self, i):
        n = self.nodes[i]
        if n['kind'] == 'plain':
            return [[i]] + (self.layers(n['parent']) if n['parent'] is not None else [])
        if n['kind'] == 'multi':
            per = [self.layers(m) for m in n['members']]
            out = []
            for k in range(max(len(p) for p in per)):
                out.append([s for p in per if k < len(p) for s in p[k]])
            return out
        if n['kind'] == 'linked':
            return self.layers(n['linked']) + (self.layers(n['parent']) if n['parent'] is not None else [])
    def wt(self, i):
        n = self.nodes[i]
        if n['kind'] == 'plain': return i
        if n['kind'] == 'multi': return self.wt(n['members'][0])
        return self.wt(n['linked'])
    def get(self, i, name):
        name = norm(name)
        for layer in self.layers(i):
            for s in layer:
                if name in self.nodes[s]['data']: return self.nodes[s]['data'][name]
        return None
    def contains(self, i, name):
        name = norm(name)
        return any(name in self.nodes[s]['data'] for s in self.layers(i)[0])
    def keys(self, i):
        out = []
        for s in self.layers(i)[0]:
            for k in self.nodes[s]['data']:
                if k not in out: out.append(k)
        return out
    def set(self, i, name, v): self.nodes[self.wt(i)]['data'][norm(name)] = v
    def delete(self, i, name):
        name = norm(name); hit = False
        for s in self.layers(i)[0]:
            if name in self.nodes[s]['data']: del self.nodes[s]['data'][name]; hit = True
        if not hit: raise KeyError(name)
    def register(self, i, tag, excl):
        n = self.nodes[self.wt(i)]; n['funcs'].append(tag)
        if excl: n['excl'] = True
    def get_functions(self, i):
        l0 = self.layers(i)[0]
        return sorted(t for s in l0 for t in self.nodes[s]['funcs']), any(self.nodes[s]['excl'] for s in l0)
    def collect(self, i):
        out = []
        for layer in self.layers(i):
            fs = sorted(t for s in layer for t in self.nodes[s]['funcs'])
            if fs: out.append(fs)
            if any(self.nodes[s]['excl'] for s in layer): break
        return out

# ---------------- real
def mkfd(tag):
    def f(): return tag
    return specs.get_function_definition(f, name='f', meta=None) if False else _fd(tag)
def _fd(tag):
    def f(): return tag
    fd = specs.get_function_definition(f, name='f'); fd.meta = {'tag': tag}; return fd

def replay(hist):
    m = M(); real = []
    err = None
    for step, ev in enumerate(hist):
        op = ev[0]
        try:
            if op == 'root': m.add(); real.append(contexts.Context())
            elif op == 'child':
                m_err = None
                r = real[ev[1]].create_child_context()
                # model: child kind: plain with parent = node (for multi: Context(self); linked: type(linked)(self))
                m.add(parent=ev[1]); real.append(r)
            elif op == 'multi':
                r = contexts.MultiContext([real[ev[1]], real[ev[2]]]); m.add(kind='multi', members=[ev[1], ev[2]]); real.append(r)
            elif op == 'linked':
                r = contexts.LinkedContext(real[ev[1]], real[ev[2]]); m.add(kind='linked', parent=ev[1], linked=ev[2]); real.append(r)
            elif op == 'set': real[ev[1]][ev[2]] = ev[3]; m.set(ev[1], ev[2], ev[3])
            elif op == 'del':
                me = re_ = None
                try: m.delete(ev[1], ev[2])
                except KeyError: me = 'KeyError'
                try: del real[ev[1]][ev[2]]
                except KeyError: re_ = 'KeyError'
                if me != re_: return ('op-outcome', step, ev, me, re_)
            elif op == 'reg':
                real[ev[1]].register_function(_fd(ev[2]), exclusive=ev[3]); m.register(ev[1], ev[2], ev[3])
        except Exception as e:
            return ('op-exception', step, ev, type(e).__name__, str(e)[:60])
    # observables
    for i, r in enumerate(real):
        for n in NAMES:
            if r[n] != m.get(i, n): return ('get', i, n, m.get(i, n), r[n])
            if (n in r) != m.contains(i, n): return ('contains', i, n, m.contains(i, n), n in r)
        if list(r.keys()) != m.keys(i): return ('keys', i, m.keys(i), list(r.keys()))
        fs, ex = r.get_functions('f')
        if (sorted(fd.meta['tag'] for fd in fs), ex) != m.get_functions(i): return ('get_functions', i, m.get_functions(i), (sorted(fd.meta['tag'] for fd in fs), ex))
        col = [sorted(fd.meta['tag'] for fd in layer) for layer in r.collect_functions('f')]
        if col != m.collect(i): return ('collect', i, m.collect(i), col)
    return None

def events(hist, maxnodes):
    n = sum(1 for e in hist if e[0] in ('root', 'child', 'multi', 'linked'))
    evs = []
    if n < maxnodes:
        evs.append(('root',))
        for i in range(n): evs.append(('child', i))
        for i in range(n):
            for j in range(n):
                if i != j: evs.append(('multi', i, j)); evs.append(('linked', i, j))
    nreg = sum(1 for e in hist if e[0] == 'reg')
    for i in range(n):
        for name in NAMES:
            evs.append(('set', i, name, len(hist)))
            evs.append(('del', i, name))
        evs.append(('reg', i, 't%d' % nreg, False)); evs.append(('reg', i, 't%d' % nreg, True))
    return evs

if __name__ == '__main__':
    depth = int(sys.argv[1]); maxnodes = int(sys.argv[2])
    frontier = [()]; total = 0; bad = collections.OrderedDict(); pruned = set()
    for d in range(depth):
        nxt = []
        for h in frontier:
            for ev in events(h, maxnodes):
                h2 = h + (ev,)
                total += 1
                r = replay(h2)
                if r is not None:
                    key = (r[0],) + tuple(e[0] for e in h2)
                    bad.setdefault((r[0], tuple(sorted(set(e[0] for e in h2 if e[0] in ('multi','linked','child'))))), []).append((h2, r))
                    continue      # do not extend failing histories
                nxt.append(h2)
        frontier = nxt
        print('depth', d + 1, 'frontier', len(frontier), 'transitions', total, 'bad classes', len(bad))
    for k, v in bad.items():
        print('==', k, len(v)); print('    ', v[0])
