"""C14 - streaming operators consume only what they need from their source.

E3 small-scope enumeration of pipelines.  Every pipeline of up to 3 (thorough:
4) operator instances from the property's list is run over an endless
instrumented source ($s, a one-shot iterator that counts pulls and raises
Horizon - a BaseException - beyond its horizon; for short pipelines also a
re-iterable collection handed over as input data, and an engine with a memory
quota), every lambda wrapped in
tick(); its first k results are taken (a) from the unfinalised iterator
(engine option yaql.convertOutputData off), (b) through .take(k) and (c)
through .first(); pipelines may end in a short-circuit search.  The same
pipeline of models/stream.py generators over a counting source gives what those
k results require; the implementation may pull at most one source element and
apply lambdas at most once more than that.  Exceeding the bound or reaching the
horizon (model + 50) is a violation.
"""
import itertools

import vf.loader  # noqa: F401
from vf import yq
from vf.core import Result
from models import colls as M
from models import stream as S

ID = 'C14'
TITLE = 'streaming operators consume only what they need'
RULE = ('all pipelines (ordered tuples of operator instances, optionally ending in a short-circuit search) x source x k x way '
        'of pulling x (how the source is bound, engine); a case is distinct by (expression text, source, k, way, binding, '
        'engine) and non-trivial when the model pipeline produces its k results (or its search result) within 40 source '
        'elements and without an error')
ASSUMPTIONS = [
    'what k results require = pulls / lambda applications of the minimal lazy generators of models/stream.py',
    'a pipeline whose model diverges, fails or needs more than 40 source elements is out of domain',
    'an exception of the implementation, or results that differ from the stream model while consumption is within the bound, '
    'are C13 matters (counted and noted, not judged here)',
    "join: only the outer (receiver) side is claimed to stream; 'member projection' is collection.key on dict elements",
    "'+' with an operand that is not a list is concat by definition (combine_lists delegates to concat; its docstring says "
    "'Returns two iterables concatenated', returnType iterable - the wording of the listed operators, no explicit 'lazy'): "
    "it is enumerated as the operator spelling of concat, with its own key (ops=combine_lists)",
    'input data: a collection that is iterable but not an iterator is converted lazily (convert_input_data: "other iterables -> '
    'lazy map", DESIGN A.5), so a pipeline over it is bound like one over an iterator',
]
BOUNDS = {
    'quick': 'pipelines of <= 2 instances from all 32 streaming (incl. 4 spellings of + and concat with the stream as argument) '
             '+ 8 search instances, of 3 from a 14-instance core (+ searches); sources 1,2,3,... and cyclic (1,null,2,2,3) bound as '
             'variable $s, k in {0,1,2,3} x {unfinalised iterator, take(k)} + first(), default engine; pipelines of <= 2 also '
             'with the source as re-iterable input data ($, $.src, $[0]), as a finite yaql list of model+50 elements (lambda applications only) and under an engine with yaql.memoryQuota (k = 2)',
    'thorough': 'pipelines of <= 3 instances from all 32 + 8, of 4 from the 14-instance core with k in {0,1,2,3} on the '
                'unfinalised iterator only; same sources and extra bindings / engine',
}
MODEL_LIMIT = 40
SLACK = 50
RAW = {'yaql.convertOutputData': False}

LAMBDAS = dict(M.UNARY)
LAMBDAS.update(M.BINARY)
LAMBDAS['dict(a => $)'] = lambda x: {'a': x}

SOURCES = {
    'ints': lambda i: i + 1,
    'cyclic': lambda i: (1, None, 2, 2, 3)[i % 5],
}


# how the source reaches the expression, and under which engine
ROOT = {'var': '$s', 'data': '$', 'data.dict': '$.src', 'data.list': '$[0]', 'list': '$s'}
DEFAULT = ('var', 'default')
EXTRA_SETTINGS = [('data', 'default'), ('data.dict', 'default'), ('data.list', 'default'), ('var', 'quota'), ('data', 'quota'),
                  ('list', 'default')]
QUOTA = {'yaql.memoryQuota': 100000}


class FiniteList(object):
    def __init__(self, items):
        self.items, self.pulls = items, 0


class ReiterableSource(object):
    """An endless instrumented collection that is not an iterator (it has __iter__
    but no __next__, like a deque or a dict view): every __iter__ returns a fresh
    counting generator, pulls are counted across all of them, pull number
    horizon + 1 raises Horizon.  Handed to yaql as input DATA."""

    def __init__(self, horizon, fn):
        self.horizon, self.fn, self.pulls = horizon, fn, 0

    def __iter__(self):
        i = 0
        while True:
            if self.pulls >= self.horizon:
                raise yq.Horizon(self.pulls + 1)
            self.pulls += 1
            yield self.fn(i)
            i += 1


class Op(object):
    def __init__(self, text, fn, lams, model, search=False, core=False, ticks=False):
        self.text, self.fn, self.lams, self.model, self.search, self.core = text, fn, lams, model, search, core
        self.ticks = ticks            # the model needs the tick counter itself (a lambda applied inside a lambda)

    def yaql(self):
        return self.text if '{c}' in self.text else self.text.format(*['tick(1, %s)' % t for t in self.lams])

    def apply(self, receiver):
        """The expression text of this operator applied to the expression text of its input ({c}: not a method call)."""
        t = self.yaql()
        return t.replace('{c}', receiver) if '{c}' in t else receiver + '.' + t

    @property
    def name(self):
        return self.text if '{c}' in self.text else self.text.format(*self.lams)


OPS = [
    Op('select({0})', 'select', ['[$, $]'], S.select, core=True),
    Op('select({0})', 'select', ['$ mod 2'], S.select),
    Op('where({0})', 'where', ['$ > 1'], S.where, core=True),
    Op('where({0})', 'where', ['$ = null'], S.where),
    Op('selectMany({0})', 'select_many', ['[$, $]'], S.select_many, core=True),
    Op('selectMany(tick(1, [$, $, $].select(tick(1, $))))', 'select_many', [],     # a lazy inner collection
       lambda s, ticks: S.select_many(s, ticks.wrap(lambda x: (ticks.wrap(lambda y: y)(y) for y in [x, x, x]))), ticks=True),
    Op('skip(2)', 'skip', [], lambda s: S.skip(s, 2), core=True),
    Op('take(2)', 'limit', [], lambda s: S.take(s, 2), core=True),
    Op('takeWhile({0})', 'take_while', ['$'], S.take_while, core=True),
    Op('takeWhile({0})', 'take_while', ['$ mod 2'], S.take_while),
    Op('skipWhile({0})', 'skip_while', ['$ mod 2'], S.skip_while, core=True),
    Op('skipWhile({0})', 'skip_while', ['$ = null'], S.skip_while),
    Op('append(9)', 'append', [], lambda s: S.append(s, 9)),
    Op('concat([9])', 'concat', [], lambda s: S.concat(s, [9])),
    Op('[9].concat({c})', 'concat', [], lambda s: S.concat([9], s)),             # the stream as an argument
    # '+' is the operator spelling of concat whenever an operand is not a list (collections.py: combine_lists)
    Op('({c} + [9])', 'combine_lists', [], lambda s: S.concat(s, [9])),
    Op('([9] + {c})', 'combine_lists', [], lambda s: S.concat([9], s)),
    Op('({c} + [7, 8].select($))', 'combine_lists', [], lambda s: S.concat(s, [7, 8])),
    Op('([7, 8].select($) + {c})', 'combine_lists', [], lambda s: S.concat([7, 8], s)),
    Op('distinct()', 'distinct', [], S.distinct, core=True),
    Op('distinct({0})', 'distinct', ['$ mod 2'], S.distinct),
    Op('enumerate()', 'enumerate_', [], S.enumerate_, core=True),
    Op('zip([7, 8, 9])', 'zip_', [], lambda s: S.zip_(s, [7, 8, 9]), core=True),
    Op('accumulate({0})', 'accumulate', ['$1 + $2'], S.accumulate, core=True),
    Op('insert(1, 9)', 'iter_insert', [], lambda s: S.insert(s, 1, 9), core=True),
    Op('delete(1, 1)', 'delete', [], lambda s: S.delete(s, 1, 1)),
    Op('replace(1, 9, 1)', 'replace', [], lambda s: S.replace(s, 1, 9, 1)),
    Op('slice(2)', 'slice_', [], lambda s: S.slice_(s, 2), core=True),
    Op('memorize()', 'memorize', [], S.memorize, core=True),
    Op('select({0})', 'select', ['dict(a => $)'], S.select),
    Op('a', 'collection_attribution', [], lambda s: S.member(s, 'a')),
    Op('join([1, 2], {0}, {1})', 'join', ['$1 > $2', '[$1, $2]'], lambda s, p, f: S.join(s, [1, 2], p, f), core=True),
]
SEARCHES = [
    Op('first()', 'first', [], S.first, search=True),
    Op('any()', 'any_', [], S.any_, search=True),
    Op('any({0})', 'any_', ['$ > 1'], S.any_, search=True),
    Op('all({0})', 'all_', ['$ mod 2'], S.all_, search=True),
    Op('indexOf(2)', 'index_of', [], lambda s: S.index_of(s, 2), search=True),
    Op('indexOf(null)', 'index_of', [], lambda s: S.index_of(s, None), search=True),
    Op('indexWhere({0})', 'index_where', ['$ > 1'], S.index_where, search=True),
    Op('indexWhere({0})', 'index_where', ['$ = null'], S.index_where, search=True),
]
ALL = OPS + SEARCHES
BY_NAME = dict((o.name, o) for o in ALL)
assert len(BY_NAME) == len(ALL)
CORE = [o for o in OPS if o.core]
FIRST = BY_NAME['first()']


def pipelines(tier):
    """Lists of operator instances; only the last may be a search."""
    full = 2 if tier == 'quick' else 3
    for n in range(1, full + 1):
        for body in itertools.product(OPS, repeat=n - 1):
            for last in ALL:
                yield list(body) + [last]
    n = full + 1
    for body in itertools.product(CORE, repeat=n - 1):
        for last in CORE + SEARCHES:
            yield list(body) + [last]


def variants(ops, tier):
    """(k, way) for a pipeline: way raw = pull k from the unfinalised iterator,
    take = .take(k) finalised, first = .first(), search = the pipeline ends in a search."""
    if ops[-1].search:
        return [(None, 'search')]
    if tier == 'thorough' and len(ops) == 4:
        return [(k, 'raw') for k in (0, 1, 2, 3)]
    return [(k, way) for k in (0, 1, 2, 3) for way in ('raw', 'take')] + [(1, 'first')]


def text_of(ops, k, way, binding='var'):
    t = ROOT[binding]
    for o in ops:
        t = o.apply(t)
    if way == 'take':
        t += '.take(%d)' % k
    elif way == 'first':
        t += '.first()'
    return t


def run_model(ops, source, k, way):
    """('v', results, pulls, ticks) or ('ood', reason)."""
    ticks = S.Ticks()
    src = S.CountingSource(SOURCES[source], MODEL_LIMIT)
    try:
        stream = src
        for o in ops:
            stream = o.model(stream, *[ticks.wrap(LAMBDAS[t]) for t in o.lams], **({'ticks': ticks} if o.ticks else {}))
        if way == 'first':
            value = S.first(stream)
        elif way != 'search':
            value = S.first_k(stream, k)
        else:
            value = stream
    except S.ModelHorizon:
        return ('ood', 'diverges')
    except (M.Err, M.OutOfDomain) as e:
        return ('ood', 'model error: %s' % e)
    return ('v', value, src.pulls, ticks.n)


def run_impl(text, source, horizon, k, way, setting=DEFAULT):
    """(status, value, pulls, ticks); status ok | horizon | error:<class>."""
    binding, engine = setting
    ctx, log = yq.tick_context()
    options = dict(RAW if way == 'raw' else {}, **(QUOTA if engine == 'quota' else {}))
    if binding == 'var':
        src = yq.Source(horizon, fn=SOURCES[source])
        variables, data = {'s': src}, yq.NO_VALUE
    elif binding == 'list':
        # a finite yaql list, longer than anything the k results require: pulls cannot be observed, lambda applications can
        src = FiniteList(tuple(SOURCES[source](i) for i in range(horizon)))
        variables, data = {'s': src.items}, yq.NO_VALUE
    else:
        src = ReiterableSource(horizon, SOURCES[source])
        variables, data = None, {'data': src, 'data.dict': {'src': src}, 'data.list': [src]}[binding]
    value = None
    try:
        value = yq.evaluate(text, data=data, variables=variables, options=options, context=ctx)
        if way == 'raw':
            value = list(itertools.islice(iter(value), k))
        status = 'ok'
    except yq.Horizon:
        status, value = 'horizon', None
    except Exception as e:
        status, value = 'error:' + type(e).__name__, None
    pulls, ticks = src.pulls, len(log)          # read before lazy elements of the result are unfolded for comparison
    return status, unfold(value), pulls, ticks


def unfold(v):
    """Plain data of a possibly unfinalised result (an element may itself be lazy: list + iterator is a chain)."""
    if isinstance(v, (str, type(None), bool, int)):
        return v
    if isinstance(v, (set, frozenset)):
        return frozenset(v)
    if hasattr(v, 'items'):
        return dict((k, unfold(x)) for k, x in v.items())
    return [unfold(x) for x in v]


def verdict(ops, source, k, way, setting=DEFAULT):
    """(None, reason) when out of domain, else ((ok, kind of failure, detail, status, pulls - model pulls), '')."""
    m = run_model(ops, source, k, way)
    if m[0] == 'ood':
        return None, m[1]
    _, mval, mpulls, mticks = m
    status, value, pulls, ticks = run_impl(text_of(ops, k, way, setting[0]), source, mpulls + SLACK, k, way, setting)
    if setting[0] == 'list':
        pulls = mpulls          # a list is not consumed by pulling: only the lambda applications are bounded
    detail = 'pulls %d (model %d), lambda applications %d (model %d), status %s' % (pulls, mpulls, ticks, mticks, status)
    if status == 'horizon':
        return (False, 'over-consumption', detail + ': reached the horizon', status, pulls - mpulls), ''
    if pulls > mpulls + 1 or ticks > mticks + 1:
        return (False, 'over-consumption', detail, status, pulls - mpulls), ''
    if status != 'ok':
        return (True, '', detail, status, pulls - mpulls), ''
    if not M.same(value, mval):
        status = 'values differ: observed %r model %r' % (value, mval)
    return (True, '', detail, status, pulls - mpulls), ''


_lookahead = {}


def lookahead(op):
    """Does the operator, alone on the source, pull more than its k results need (within the allowed one)?"""
    if op.name not in _lookahead:
        vs = [verdict([op], src, k, 'search' if op.search else 'raw')[0] for src in sorted(SOURCES) for k in (1, 2, 3)]
        _lookahead[op.name] = any(v is not None and v[4] > 0 for v in vs)
    return _lookahead[op.name]


def blame(ops, source, k, way, kind):
    """The key of a failing pipeline: the smallest contiguous sub-pipeline that
    fails the same way on its own; if operators in it look one element of their
    input ahead (harmless alone, amplified by an upstream operator that needs
    several source elements per result), they are named instead."""
    sub = ops
    for length in range(1, len(ops)):
        found = [ops[a:a + length] for a in range(0, len(ops) - length + 1)
                 if ops[a + length - 1].search == (way == 'search')]
        found = [c for c in found if (lambda v: v is not None and not v[0] and v[1] == kind)(verdict(c, source, k, way)[0])]
        if found:
            sub = found[0]
            break
    ahead = sorted(set(o.fn for o in sub if lookahead(o)))
    if kind == 'over-consumption' and len(sub) > 1 and ahead:
        return '%s look-ahead of %s amplified by its upstream' % (kind, '|'.join(ahead))
    return '%s ops=%s' % (kind, '|'.join(o.fn for o in sub))


def cases(ops, tier):
    """(source, k, way, setting) of a pipeline.  Every pipeline runs on both
    sources bound as the variable $s under the default engine; pipelines of up
    to 2 operators additionally get the source as input data (a re-iterable
    collection: top level, inside a dict, inside a list) and an engine with a
    memory quota, on the counting source with k = 2."""
    for source in sorted(SOURCES):
        for k, way in variants(ops, tier):
            yield source, k, way, DEFAULT
    if len(ops) <= 2:
        for setting in EXTRA_SETTINGS:
            for k, way in ([(None, 'search')] if ops[-1].search else [(2, 'raw'), (2, 'take')]):
                yield 'ints', k, way, setting


def failure_key(ops, source, k, way, setting, kind):
    if setting != DEFAULT:
        v, _ = verdict(ops, source, k, way)
        if v is not None and v[0]:          # the same pipeline is within the bound on a plain iterator, default engine
            if setting[0] == 'list':
                sub = ops
                for length in range(1, len(ops)):
                    found = [ops[a:a + length] for a in range(0, len(ops) - length + 1)
                             if ops[a + length - 1].search == (way == 'search')]
                    found = [c for c in found if (lambda w: w is not None and not w[0])(verdict(c, source, k, way, setting)[0])]
                    if found:
                        sub = found[0]
                        break
                return '%s lambda applications over a list source ops=%s' % (kind, '|'.join(o.fn for o in sub))
            if setting[0] != 'var':
                return '%s source handed over as input data (re-iterable collection)' % kind
            return '%s engine with yaql.memoryQuota ops=%s' % (kind, '|'.join(o.fn for o in ops))
    return blame(ops, source, k, way, kind)


def job(tier, j, njobs):
    res = Result()
    for ops in itertools.islice(pipelines(tier), j, None, njobs):
        for source, k, way, setting in cases(ops, tier):
            text = text_of(ops, k, way, setting[0])
            case = {'ops': [o.name for o in ops], 'source': source, 'k': k, 'way': way, 'setting': list(setting)}
            res.case((text, source, k, way, setting))
            v, why = verdict(ops, source, k, way, setting)
            if v is None:
                res.out_of_domain += 1
                res.outcomes['ood: ' + why.split(':')[0]] += 1
                continue
            res.evaluations += 1
            res.transitions += len(ops)
            ok, kind, detail, status, dpulls = v
            if not ok:
                res.nontrivial += 1
                res.outcomes['over the bound (%s)' % status.split(':')[0]] += 1
                res.fail(failure_key(ops, source, k, way, setting, kind), case,
                         '%s on %s, source as %s, %s engine: %s' % (text, source, setting[0], setting[1], detail))
                continue
            if status.startswith('error'):
                res.outcomes['implementation raised where the model has a value (C13 matter)'] += 1
                continue
            if status.startswith('values differ'):
                # consumption was within the bound; what the results are is judged by C13, here only reported
                res.outcomes['results differ from the stream model (C13 matter)'] += 1
                if j == 0 and not res.notes:
                    res.notes.append('%s on %s: %s' % (text, source, status[:160]))
                continue
            res.nontrivial += 1
            res.outcomes['%s%s: pulls = model %+d' % (way, '' if setting == DEFAULT else ' (%s, %s)' % setting, dpulls)] += 1
        if j == 0 and len(ops) == 2 and len(res.samples) < 3 and not ops[-1].search:
            m = run_model(ops, 'ints', 3, 'raw')
            if m[0] == 'v':
                res.sample({'text': text_of(ops, 3, 'raw'), 'k': 3, 'model': list(m[1:]),
                            'implementation': list(run_impl(text_of(ops, 3, 'raw'), 'ints', m[2] + SLACK, 3, 'raw'))})
    return res


def jobs(tier, seed):
    n = 16 if tier == 'quick' else 64
    return [('pipes-%02d' % j, 'job', (tier, j, n)) for j in range(n)]


def finish(total, tier):
    total.extra['operator_instances'] = [o.name for o in ALL]
    total.extra['pipelines'] = sum(1 for _ in pipelines(tier))


def replay(case):
    ops = [BY_NAME[n] for n in case['ops']]
    setting = tuple(case.get('setting', DEFAULT))
    m = run_model(ops, case['source'], case['k'], case['way'])
    if m[0] == 'ood':
        return {'observed': None, 'expected': 'out of domain: ' + m[1], 'ok': True}
    text = text_of(ops, case['k'], case['way'], setting[0])
    status, value, pulls, ticks = run_impl(text, case['source'], m[2] + SLACK, case['k'], case['way'], setting)
    v, _ = verdict(ops, case['source'], case['k'], case['way'], setting)
    return {'text': text, 'source': case['source'], 'setting': list(setting),
            'observed': {'status': status, 'pulls': pulls, 'lambda_applications': ticks, 'value': repr(value)},
            'expected': {'pulls_at_most': m[2] + 1, 'lambda_applications_at_most': m[3] + 1, 'value': repr(m[1])},
            'ok': v[0]}
