"""C02 - the operator table decides the parse tree.

E3 small-scope enumeration.  For an operator table (default, legacy, or
customised through insert_operator) every expression made of <= n binary
operators with <= k prefix / suffix / index decorations at every operand
position, parenthesised groupings and operand-shape variations is parsed by
the real engine in three whitespace renderings and the tree (Wrap transparent)
is compared with models/pratt.py, a precedence climber that only sees the
table as a list of groups.  For customised tables the expected table is the
insertion-API *model* applied to the pristine list, so list editing and
grammar generation are both checked.
"""
import itertools

import vf.loader  # noqa: F401
from vf.core import Result, chunks
from models import pratt as M

import yaql
from yaql import legacy as ylegacy
from yaql.language import exceptions as yexc
from yaql.language import expressions as X

ID = 'C02'
TITLE = 'operator table decides the parse tree'
RULE = ('all sequences of <= n binary operators of the table x all placements of <= k prefix/suffix/index '
        'decorations on the operands x 3 whitespace renderings (one space, minimal, wide with leading/trailing), '
        'plus all parenthesised groupings and operand shapes for <= 2 operators; a case is distinct by (table, text) '
        'and non-trivial when it contains at least two operators, i.e. a binding decision')
ASSUMPTIONS = ['the operator table is taken from factory.operators (a deliberate edit of a default row is a NOTE, not a violation)',
               'customised tables are restricted to homogeneous groups (property text); inhomogeneous ones are only checked for list editing',
               'delegate calls are used only where nothing precedes them (the call suffix has no row in the table)',
               'a symbol that is both suffix and binary is not part of the space (ambiguous by construction)']
BOUNDS = {
    'quick': 'default table: n<=2,k<=2 and n=3,k<=1; legacy: n<=2,k<=2; delegates engine: n<=2; parens/shapes n<=2; '
             'every single insert_operator call over 12 anchors x 6 new operators x create_group, homogeneous ones parsed '
             'on all expressions n=1,k<=2 and n=2,k<=1 containing the new symbol; the same on the legacy factory (one-space rendering) over 7 anchors '
             "(incl. its '=>' group and its last group '->')",
    'thorough': 'default table: n<=3,k<=2 and n=4,k=0; legacy: n<=3,k<=1 (k<=2 for n<=2); all ordered pairs of insert_operator '
                'calls (second call over 6 anchors + the first new operator as anchor), homogeneous ones parsed '
                'on n=1,k<=1 and n=2,k=0 containing a new symbol, one-space rendering',
}

PINNED_DEFAULT = [
    [('=>', M.PAIR), ('.', M.LEFT), ('?.', M.LEFT)],
    [('[]', M.LEFT), ('{}', M.LEFT)],
    [('+', M.PREFIX), ('-', M.PREFIX)],
    [('=~', M.LEFT), ('!~', M.LEFT)],
    [('*', M.LEFT), ('/', M.LEFT), ('mod', M.LEFT)],
    [('+', M.LEFT), ('-', M.LEFT)],
    [('>', M.LEFT), ('<', M.LEFT), ('>=', M.LEFT), ('<=', M.LEFT), ('!=', M.LEFT), ('=', M.LEFT), ('in', M.LEFT)],
    [('not', M.PREFIX)],
    [('and', M.LEFT)],
    [('or', M.LEFT)],
    [('->', M.RIGHT)],
]
PINNED_LEGACY = [PINNED_DEFAULT[0][1:]] + PINNED_DEFAULT[1:10] + [[('=>', M.LEFT)], PINNED_DEFAULT[10]]

# insert_operator alphabet: (existing, existing_binary)
ANCHORS = [(None, True), ('.', True), ('*', True), ('-', True), ('-', False), ('not', False), ('or', True), ('->', True),
           # not in the table with that arity -> ValueError
           ('.', False), ('not', True), ('=>', True), ('nope', True)]
NEW = [('**', M.RIGHT), ('%%', M.LEFT), ('!', M.SUFFIX), ('~', M.PREFIX), ('xor', M.LEFT), ('*', M.PREFIX)]
NAMES = 'abcde'
SEPS = (('space', ' '), ('minimal', ''), ('wide', '\t\r\n '))


# --------------------------------------------------------------------------
# tables
# --------------------------------------------------------------------------
def single_inserts():
    return [(a, b, s, t, cg) for (a, b) in ANCHORS for (s, t) in NEW for cg in (False, True)]


# the same API on the legacy factory (whose own table was produced by an insertion): anchors include its '=>' group
# and its last group
LEGACY_ANCHORS = [(None, True), ('*', True), ('not', False), ('or', True), ('=>', True), ('->', True), ('=>', False)]
CUSTOM_KINDS = ('custom', 'legacy-custom')


def legacy_inserts():
    return [(a, b, s, t, cg) for (a, b) in LEGACY_ANCHORS for (s, t) in NEW for cg in (False, True)]


SECOND_ANCHORS = [(None, True), ('*', True), ('-', False), ('not', False), ('->', True), ('nope', True)]


def second_inserts(first):
    """Calls that may follow `first`: a reduced anchor alphabet plus the new operator itself as anchor."""
    anchors = SECOND_ANCHORS + [(first[2], first[3] in M.BINARY)]
    return [(a, b, s, t, cg) for (a, b) in anchors for (s, t) in NEW if s != first[2] for cg in (False, True)]


def build(spec):
    """spec -> (factory | None, expected groups | 'ValueError', observed groups | 'ValueError')."""
    kind = spec[0]
    if kind in ('legacy', 'legacy-custom'):
        f = ylegacy.YaqlFactory()
    else:
        f = yaql.YaqlFactory(allow_delegates=(kind == 'delegates'))
    exp = obs = M.groups_of(f.operators)
    if kind in CUSTOM_KINDS:
        for ins in spec[1]:
            if exp != 'ValueError':
                try:
                    exp = M.insert(exp, *ins)
                except ValueError:
                    exp = 'ValueError'
            if obs != 'ValueError':
                try:
                    f.insert_operator(*ins)
                    obs = M.groups_of(f.operators)
                except ValueError:
                    obs = 'ValueError'
    return f, exp, obs


def label(spec):
    if spec[0] not in CUSTOM_KINDS:
        return spec[0]
    return spec[0] + ' ' + ' ; '.join('%s/%s<-%s:%s%s' % (a, 'b' if b else 'u', s, t[:6], '+grp' if cg else '')
                                  for (a, b, s, t, cg) in spec[1])


# --------------------------------------------------------------------------
# observation
# --------------------------------------------------------------------------
def reduce(e):
    if isinstance(e, X.Statement):
        return reduce(e.expression)
    if isinstance(e, X.Wrap):
        return reduce(e.expr)
    if isinstance(e, X.BinaryOperator):
        return (e.operator, reduce(e.args[0]), reduce(e.args[1]))
    if isinstance(e, X.UnaryOperator):
        return ('u', e.operator, reduce(e.args[0]))
    if isinstance(e, X.IndexExpression):
        return ('index',) + tuple(reduce(a) for a in e.args)
    if isinstance(e, X.ListExpression):
        return ('list',) + tuple(reduce(a) for a in e.args)
    if isinstance(e, X.MapExpression):
        return ('map',) + tuple(reduce(a) for a in e.args)
    if isinstance(e, X.MappingRuleExpression):
        return ('pair', reduce(e.source), reduce(e.destination))
    if isinstance(e, X.GetContextValue):
        return ('var', e.path.value)
    if isinstance(e, X.KeywordConstant):
        return ('kw', e.value)
    if isinstance(e, X.Constant):
        return ('const', repr(e.value))
    if isinstance(e, X.Function):
        return ('call', e.name) + tuple(reduce(a) for a in e.args)
    return ('?', type(e).__name__)


def observe(engine, text):
    try:
        return reduce(engine(text))
    except yexc.YaqlParsingException as e:
        return ('ERR', type(e).__name__)
    except Exception as e:
        return ('EXC', type(e).__name__)


def expected(tokens, groups):
    try:
        return M.parse(tokens, groups)
    except M.Syntax:
        return ('ERR',)


def shape(t):
    """Tree with operators and leaves erased: shows which groupings occurred."""
    if not isinstance(t, tuple) or t[0] in ('kw', 'const', 'var', 'ERR', 'EXC', '?'):
        return 'o' if t[0] not in ('ERR', 'EXC') else t[0]
    if t[0] == 'u':
        return 'u(%s)' % shape(t[2])
    if t[0] in ('index', 'call', 'list', 'map', 'pair'):
        return '%s(%s)' % (t[0][0], ','.join(shape(x) for x in t[1:] if isinstance(x, tuple)))
    return 'b(%s,%s)' % (shape(t[1]), shape(t[2]))


# --------------------------------------------------------------------------
# expression enumeration
# --------------------------------------------------------------------------
def opd(name):
    return ('opd', name, ('kw', name))


def decorations(n, k, pre, post):
    """All distinct ways to put <= k prefix operators / postfix items on the
    n+1 operand slots: list of tuples (per slot: (prefix tokens, postfix tokens))."""
    items = [(s, 'pre', p) for s in range(n + 1) for p in pre] + [(s, 'post', p) for s in range(n + 1) for p in post]
    seen, out = set(), []
    for size in range(k + 1):
        for seq in itertools.product(items, repeat=size):
            slots = [([], []) for _ in range(n + 1)]
            for s, where, sym in seq:
                if where == 'pre':
                    slots[s][0].append(('op', sym))
                elif sym == '[]':
                    slots[s][1].extend([('[',), ('opd', 'i', ('kw', 'i')), (']',)])
                else:
                    slots[s][1].append(('op', sym))
            key = tuple((tuple(a), tuple(b)) for a, b in slots)
            if key not in seen:
                seen.add(key)
                out.append(key)
    return out


def sequence_cases(ops_iter, n, decos):
    for ops in ops_iter:
        for deco in decos:
            toks = []
            for j in range(n + 1):
                toks.extend(deco[j][0])
                toks.append(opd(NAMES[j]))
                toks.extend(deco[j][1])
                if j < n:
                    toks.append(('op', ops[j]))
            yield toks


SHAPES = [
    [('opd', '1', ('const', '1'))],
    [('opd', '2.5', ('const', '2.5'))],
    [('opd', '$x', ('var', '$x'))],
    [('opd', '$', ('var', '$'))],
    [('opd', "'s'", ('const', "'s'"))],
    [('opd', 'null', ('const', 'None'))],
    [('func', 'f'), (')',)],
    [('func', 'f'), opd('p'), (')',)],
    [('func', 'f'), opd('p'), (',',), opd('k'), ('op', '=>'), opd('q'), (')',)],
    [opd('p'), ('[',), ('opd', '0', ('const', '0')), (']',)],
    [('[',), opd('p'), (',',), opd('q'), (']',)],
    [('{',), opd('p'), ('op', '=>'), opd('q'), ('}',)],
    [('(',), opd('p'), (')',)],
]


def paren_cases(bins, pre):
    for o1, o2 in itertools.product(bins, repeat=2):
        a, b, c = opd('a'), opd('b'), opd('c')
        for p in [None] + list(pre):
            head = [('op', p)] if p else []
            yield head + [('(',), a, ('op', o1), b, (')',), ('op', o2), c]
            yield [a, ('op', o1)] + head + [('(',), b, ('op', o2), c, (')',)]
            yield head + [('(',), a, ('op', o1), b, ('op', o2), c, (')',)]
            yield [('(',)] + head + [a, (')',), ('op', o1), ('(',), ('(',), b, (')',), (')',), ('op', o2), c]


def shape_cases(bins):
    for o in bins:
        for l, r in itertools.product(SHAPES, repeat=2):
            yield l + [('op', o)] + r
    for o1, o2 in itertools.product(bins, repeat=2):
        for pos in range(3):
            for s in SHAPES:
                parts = [[opd('a')], [opd('b')], [opd('c')]]
                parts[pos] = s
                yield parts[0] + [('op', o1)] + parts[1] + [('op', o2)] + parts[2]


def delegate_cases(bins):
    call = ('opd', '$f(p)', ('call', '#call', ('var', '$f'), ('kw', 'p')))
    yield [call]
    for o in bins:
        yield [call, ('op', o), opd('b')]
    for o1, o2 in itertools.product(bins, repeat=2):
        yield [call, ('op', o1), opd('b'), ('op', o2), opd('c')]


def count_ops(tokens):
    return sum(1 for t in tokens if t[0] in ('op', '['))


# --------------------------------------------------------------------------
# judging
# --------------------------------------------------------------------------
def roles(tokens, table):
    out = set()
    prev_value = False
    for t in tokens:
        if t[0] == 'op':
            if t[1] == table.pair:
                role = 'pair'
            elif prev_value and t[1] in table.suffix:
                role = 'suffix'
            elif prev_value:
                role = 'binary'
            else:
                role = 'prefix'
            out.add(role)
            prev_value = role == 'suffix'
        elif t[0] == '[':
            out.add('index' if prev_value else 'list')
            prev_value = False
        elif t[0] == '(':
            out.add('paren')
            prev_value = False
        elif t[0] in ('func', '{', ','):
            prev_value = False
        else:
            prev_value = True
    return '+'.join(sorted(out))


def judge(res, engine, spec, groups, table, symbols, tokens, seps=None):
    exp = expected(tokens, groups)
    nontrivial = count_ops(tokens) >= 2
    first_ok = None
    for sep_name, sep in (seps or SEPS):
        text = M.render(tokens, sep, symbols)
        if sep_name == 'wide':
            text = ' \n' + text + '\t '
        res.case((label(spec), sep_name, text))
        obs = observe(engine, text)
        res.evaluations += 1
        res.transitions += 1
        if nontrivial:
            res.nontrivial += 1
        ok = obs == exp
        if first_ok is None:
            first_ok = ok
            res.outcomes[shape(obs)] += 1
        if not ok:
            tk = spec[0] if spec[0] not in CUSTOM_KINDS else spec[0] + ' new=%s' % ','.join(
                '%s%s' % (i[3], '+group' if i[4] else '') for i in spec[1])
            if first_ok and sep_name != 'space':
                key = 'whitespace-changes-tree table=%s sep=%s' % (tk, sep_name)
            else:
                key = 'tree-mismatch table=%s roles=%s' % (tk, roles(tokens, table))
            res.fail(key, {'kind': 'tree', 'spec': spec, 'tokens': tokens, 'sep': sep_name, 'text': text},
                     'text %r observed %r expected %r' % (text, obs, exp))
    return exp


def table_parts(groups):
    table = M.Table(groups)
    bins = [s for g in groups for (s, t) in g if t in M.BINARY and s not in ('[]', '{}')]
    pre = [s for g in groups for (s, t) in g if t == M.PREFIX]
    post = [s for g in groups for (s, t) in g if t == M.SUFFIX] + (['[]'] if '[]' in table.binary else [])
    return table, bins, pre, post


def job_sequences(spec, plan, first_ops):
    """plan: list of (n, k, all renderings?); sequences whose first operator is in first_ops."""
    res = Result()
    factory, groups, _ = build(spec)
    engine = factory.create()
    table, bins, pre, post = table_parts(groups)
    symbols = table.symbols()
    for n, k, all_seps in plan:
        decos = decorations(n, k, pre, post)
        ops_iter = (tuple([f]) + rest for f in first_ops for rest in itertools.product(bins, repeat=n - 1))
        for i, tokens in enumerate(sequence_cases(ops_iter, n, decos)):
            exp = judge(res, engine, spec, groups, table, symbols, tokens, None if all_seps else SEPS[:1])
            if i % 4001 == 17:
                res.sample({'table': spec[0], 'text': M.render(tokens, ' ', symbols), 'tree': repr(exp)}, limit=2)
    return res


def job_misc(spec, family):
    res = Result()
    factory, groups, _ = build(spec)
    engine = factory.create()
    table, bins, pre, post = table_parts(groups)
    symbols = table.symbols()
    gen = {'paren': lambda: paren_cases(bins, pre), 'shapes': lambda: shape_cases(bins),
           'delegate': lambda: delegate_cases(bins)}[family]
    for i, tokens in enumerate(gen()):
        exp = judge(res, engine, spec, groups, table, symbols, tokens)
        if i % 1501 == 7:
            res.sample({'table': spec[0], 'text': M.render(tokens, ' ', symbols), 'tree': repr(exp)}, limit=2)
    return res


def job_tables(tier):
    """The tables themselves: pinned copies (NOTE only) and homogeneity census."""
    res = Result()
    for spec, pinned in ((('default',), PINNED_DEFAULT), (('legacy',), PINNED_LEGACY)):
        groups = build(spec)[1]
        res.case(('table', spec[0]))
        if groups != pinned:
            res.notes.append('table-changed %s: factory.operators differs from the pinned copy (informational)' % spec[0])
        if not (M.well_formed(groups) and M.homogeneous(groups)):
            res.notes.append('table %s is not homogeneous; the property does not constrain it' % spec[0])
    return res


def _count(res, name):
    res.extra[name] = res.extra.get(name, 0) + 1


def _unordered(groups):
    """Order inside a group and empty groups carry no meaning."""
    return groups if groups == 'ValueError' else [sorted(g) for g in M.dense(groups)]


def job_custom(specs, plan):
    res = Result()
    for spec in specs:
        res.case(('insert', label(spec)))
        factory, groups, observed = build(spec)
        res.transitions += 1
        ins = spec[1][-1]
        if _unordered(observed) != _unordered(groups):     # order inside a group carries no meaning
            res.fail('insert-table-mismatch base=%s anchor=%s create_group=%s' % (
                'legacy' if spec[0] == 'legacy-custom' else 'default', 'none' if ins[0] is None else 'binary' if ins[1] else 'unary', ins[4]),
                {'kind': 'table', 'spec': spec}, 'observed %r expected %r' % (observed, groups))
        if groups == 'ValueError':
            _count(res, 'insert_sequences_expected_ValueError')
            continue
        if not M.well_formed(groups) or not M.homogeneous(groups):
            res.out_of_domain += 1
            _count(res, 'insert_sequences_table_only_not_homogeneous')
            continue
        _count(res, 'insert_sequences_homogeneous_engine_built_and_parsed')
        try:
            engine = factory.create()
        except Exception as e:        # a well-formed homogeneous table must yield an engine
            res.fail('engine-build-failed base=%s new=%s' % ('legacy' if spec[0] == 'legacy-custom' else 'default',
                                                             ','.join('%s%s' % (i[3], '+group' if i[4] else '') for i in spec[1])),
                     {'kind': 'table', 'spec': spec}, '%s: %s' % (type(e).__name__, str(e)[:200]))
            continue
        table, bins, pre, post = table_parts(groups)
        symbols = table.symbols()
        new = {i[2] for i in spec[1]}
        sampled = False
        for n, k, all_seps in plan:
            decos = decorations(n, k, pre, post)
            for tokens in sequence_cases(itertools.product(bins, repeat=n), n, decos):
                if not any(t[0] == 'op' and t[1] in new for t in tokens):
                    continue
                exp = judge(res, engine, spec, groups, table, symbols, tokens, None if all_seps else SEPS[:1])
                if not sampled and n == 2:
                    sampled = True
                    res.sample({'table': label(spec), 'text': M.render(tokens, ' ', symbols), 'tree': repr(exp)}, limit=1)
    return res


def jobs(tier, seed):
    default = ('default',)
    probe = build(default)[1]
    bins = table_parts(probe)[1]
    out = [('tables', 'job_tables', (tier,))]
    T, F = True, False
    plan_d = [(1, 2, T), (2, 2, T), (3, 1, T)] if tier == 'quick' else [(1, 2, T), (2, 2, T), (3, 2, T), (4, 0, T)]
    plan_l = [(1, 2, T), (2, 2, T)] if tier == 'quick' else [(1, 2, T), (2, 2, T), (3, 1, T)]
    for op in bins:
        out.append(('default-seq-%s' % op, 'job_sequences', (default, plan_d, [op])))
    lbins = table_parts(build(('legacy',))[1])[1]
    for i, sl in enumerate(chunks(lbins, 4 if tier == 'quick' else 10)):
        out.append(('legacy-seq-%d' % i, 'job_sequences', (('legacy',), plan_l, sl)))
    for i, sl in enumerate(chunks(bins, 2)):
        out.append(('delegates-seq-%d' % i, 'job_sequences', (('delegates',), [(1, 2, T), (2, 1, T)], sl)))
    for spec, fam in ((default, 'paren'), (default, 'shapes'), (('legacy',), 'paren'), (('legacy',), 'shapes'),
                      (('delegates',), 'delegate')):
        out.append(('%s-%s' % (spec[0], fam), 'job_misc', (spec, fam)))
    singles = [('custom', [ins]) for ins in single_inserts()]
    for i, sl in enumerate(chunks(singles, 12)):
        out.append(('custom-%02d' % i, 'job_custom', (sl, [(1, 2, T), (2, 1, T)])))
    lsingles = [('legacy-custom', [ins]) for ins in legacy_inserts()]
    for i, sl in enumerate(chunks(lsingles, 12)):
        out.append(('legacy-custom-%02d' % i, 'job_custom', (sl, [(1, 2, F), (2, 1, F)])))      # one-space rendering
    if tier == 'thorough':
        pairs = [('custom', [s[1][0], second]) for s in singles if build(s)[1] != 'ValueError'
                 for second in second_inserts(s[1][0])]
        for i, sl in enumerate(chunks(pairs, 48)):
            out.append(('custom-pairs-%02d' % i, 'job_custom', (sl, [(1, 1, F), (2, 0, F)])))
    return out


def _tuplify(x):
    return tuple(_tuplify(y) for y in x) if isinstance(x, (list, tuple)) else x


def replay(case):
    spec = _tuplify(case['spec'])
    spec = (spec[0],) if spec[0] not in CUSTOM_KINDS else (spec[0], [tuple(i) for i in spec[1]])
    factory, groups, observed = build(spec)
    if case['kind'] == 'table':
        built = 'not attempted'
        if groups != 'ValueError' and M.well_formed(groups) and M.homogeneous(groups):
            try:
                factory.create()
                built = 'engine built'
            except Exception as e:
                built = 'engine build failed: %s' % type(e).__name__
        return {'observed': repr(observed), 'expected': repr(groups), 'engine': built,
                'ok': _unordered(observed) == _unordered(groups) and not built.startswith('engine build failed')}
    tokens = [_tuplify(t) for t in case['tokens']]
    text = M.render(tokens, dict(SEPS)[case['sep']], M.Table(groups).symbols())
    if case['sep'] == 'wide':
        text = ' \n' + text + '\t '
    obs = observe(factory.create(), text)
    exp = expected(tokens, groups)
    return {'text': text, 'observed': repr(obs), 'expected': repr(exp), 'ok': obs == exp}
