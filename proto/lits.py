import warnings; warnings.filterwarnings('ignore')
import yaql, itertools, collections, re, sys
from yaql.language import exceptions, expressions as X
eng = yaql.YaqlFactory().create()
def parse_const(txt):
    try:
        st = eng(txt); e = st.expression
        if isinstance(e, X.Constant): return ('v', e.value)
        return ('tree', str(st))
    except exceptions.YaqlParsingException as e: return ('yaql', type(e).__name__)
    except Exception as e: return ('other', type(e).__name__)
def quote(s, q):
    return q + s.replace('\\', '\\\\').replace(q, '\\' + q) + q
alpha = ['\\', "'", '"', '`', 'n', 'x', 'u', '0', '4', 'a', '{', 'N', '}', ' ', 'é', 'U']
bad = collections.Counter(); ex = {}
n = 0
for L in range(0, 4):
    for tup in itertools.product(alpha, repeat=L):
        s = ''.join(tup)
        for q in ("'", '"'):
            r = parse_const(quote(s, q)); n += 1
            if r != ('v', s): bad[(q, r[0])] += 1; ex.setdefault((q, r[0]), (s, quote(s, q), r))
        # verbatim: spelling possible iff no trailing backslash run ending before a backquote etc.
        if not s.endswith('\\') and '\\`' not in s:
            t = '`' + s.replace('`', '\\`') + '`'
            r = parse_const(t); n += 1
            if r != ('v', s): bad[('`', r[0])] += 1; ex.setdefault(('`', r[0]), (s, t, r))
print('quoted round trips', n, dict(bad))
for k, v in ex.items(): print('  ', k, v)
# raw bodies: what does each body of length<=3 denote (for '...'): compare with an independent decoder
ESC = {'\\': '\\', "'": "'", '"': '"', 'a': '\a', 'b': '\b', 'f': '\f', 'n': '\n', 'r': '\r', 't': '\t', 'v': '\v'}
def model_decode(body):
    out = []; i = 0
    while i < len(body):
        c = body[i]
        if c != '\\' or i + 1 >= len(body): out.append(c); i += 1; continue
        d = body[i + 1]
        if d in ESC: out.append(ESC[d]); i += 2; continue
        if d in '01234567':
            j = i + 1; k = 0
            while j < len(body) and k < 3 and body[j] in '01234567': j += 1; k += 1
            out.append(chr(int(body[i + 1:j], 8))); i = j; continue
        if d == 'x':
            h = body[i + 2:i + 4]
            if len(h) == 2:
                if re.fullmatch('[0-9a-fA-F]{2}', h): out.append(chr(int(h, 16))); i += 4; continue
                return 'ILLFORMED'
        if d == 'u':
            h = body[i + 2:i + 6]
            if len(h) == 4:
                if re.fullmatch('[0-9a-fA-F]{4}', h): out.append(chr(int(h, 16))); i += 6; continue
                return 'ILLFORMED'
        out.append(c); i += 1
    return ''.join(out)
alpha2 = ['\\', "'", 'n', 'x', 'u', '0', '7', '8', 'a', 'q', 'Z', ' ', '4', 'f']
cnt = collections.Counter(); ex = {}
for L in range(0, 5):
    for tup in itertools.product(alpha2, repeat=L):
        body = ''.join(tup)
        txt = "'" + body + "'"
        # is it a well-formed single-quoted token by the documented rule? (no unescaped quote inside, no dangling backslash)
        if not re.fullmatch(r"'([^'\\]|\\.)*'", txt, re.S): continue
        r = parse_const(txt); m = model_decode(body)
        if m == 'ILLFORMED':
            cnt['illformed->' + r[0]] += 1; ex.setdefault('illformed->' + r[0], (txt, r)); continue
        if r != ('v', m): cnt['MISMATCH'] += 1; ex.setdefault('MISMATCH', (txt, r, m))
        else: cnt['ok'] += 1
print(dict(cnt))
for k, v in ex.items(): print('  ', k, v)
# numbers
bad = 0
for i in list(range(0, 3000)) + [10**k for k in range(1, 60)] + [10**k - 1 for k in range(1, 60)]:
    r = parse_const(str(i))
    if r != ('v', i) or type(r[1]) is not int: bad += 1
for a in range(0, 200):
    for b in ('0', '5', '05', '50', '125', '000001', '999999999999999999999'):
        t = '%d.%s' % (a, b); r = parse_const(t)
        if r != ('v', float(t)) or type(r[1]) is not float: bad += 1; print('num', t, r)
print('number mismatches', bad)
for t in ['true', 'false', 'null', 'True', 'NULL', 'abc', '_a', 'a_', '__a', 'a__', '_', '__', 'and', 'or', 'not', 'in', 'mod', 'é', 'a1', '1a', 'trueish', 'nullx']:
    print('  ', t, parse_const(t))
