import warnings; warnings.filterwarnings('ignore')
import sys, time, types
import yaql, yaql.language, pkgutil, importlib
from yaql.language import expressions as X
exec(open('/tmp/proto/fine.py').read().split("class Fine:")[0])   # eng, ROOT, distinct_mut, install_mutant
mods = [m for n, m in sys.modules.items() if n.startswith('yaql') and m is not None and 'tests' not in n]
def digest(stmts):
    h = []
    c = ROOT
    while c is not None:
        h.append((tuple((k, id(v)) for k, v in c._data.items()), tuple((n, tuple(sorted(id(f) for f in s))) for n, s in c._functions.items()), tuple(sorted(c._exclusive_funcs))))
        for s in c._functions.values():
            for fd in s:
                h.append((id(fd.payload), fd.is_method, fd.is_function, fd.name, fd.no_kwargs, id(fd.meta), len(fd.meta),
                          tuple((k, id(p), p.position, id(p.value_type), id(p.default), p.alias, p.name) for k, p in fd.parameters.items())))
        c = c.parent
    def walk(e):
        h.append((id(e), tuple((k, id(v)) for k, v in vars(e).items())))
        for a in getattr(e, 'args', ()) or ():
            if isinstance(a, X.Expression): walk(a)
        for k in ('expr', 'source', 'destination', 'expression'):
            v = getattr(e, k, None)
            if isinstance(v, X.Expression) and k != 'expression': walk(v)
    for s in stmts: walk(s)
    for m in mods:
        for k, v in vars(m).items():
            if isinstance(v, (types.ModuleType, types.FunctionType, type)): h.append((k, id(v)))
            elif isinstance(v, (list, dict, set)): h.append((k, id(v), len(v), tuple(map(id, v)) if not isinstance(v, dict) else tuple((id(a), id(b)) for a, b in v.items())))
            else: h.append((k, id(v)))
    return hash(tuple(h))
st = eng('$.distinct().toList()')
t = time.time()
for i in range(200): d = digest([st])
print('digest ms', (time.time() - t) / 200 * 1000)
def monitor(stmt, data):
    base = digest([stmt]); changes = []; n = [0]
    def tracer(frame, event, arg):
        if '/repo/yaql/' not in frame.f_code.co_filename and 'fine.py' not in frame.f_code.co_filename: return None
        def local(frame, event, arg):
            if event == 'line':
                n[0] += 1
                d = digest([stmt])
                if d != base and (not changes or changes[-1][1] != d): changes.append((n[0], d, frame.f_code.co_name, frame.f_lineno))
            return local
        return local
    sys.settrace(tracer)
    try: stmt.evaluate(data=data, context=ROOT.create_child_context())
    finally: sys.settrace(None)
    return n[0], changes
t = time.time(); n, ch = monitor(st, [1, 1, 2]); print('pinned: events', n, 'digest changes', len(ch), 's %.1f' % (time.time() - t))
install_mutant(); import yaql.standard_library.queries as Q; Q._scratch = _scratch
n, ch = monitor(st, [1, 1, 2]); print('mutant: events', n, 'digest changes', len(ch), [c[2:] for c in ch[:4]])
